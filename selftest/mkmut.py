#!/usr/bin/env python3
"""mkmut.py <kind> <name> <expect-regex> <file> <old> <new> [<file> <old> <new> ...]
Creates selftest/<kind>/<name>.patch (kind: mutants|benign) from textual replacements against /repo's working tree."""
import sys, subprocess, tempfile, shutil, os
kind, name, expect = sys.argv[1:4]
edits = sys.argv[4:]
tmp = tempfile.mkdtemp()
try:
    a, b = os.path.join(tmp, 'a'), os.path.join(tmp, 'b')
    os.makedirs(a); os.makedirs(b)
    files = sorted(set(edits[0::3]))
    for f in files:
        for d in (a, b):
            os.makedirs(os.path.dirname(os.path.join(d, f)), exist_ok=True)
            shutil.copy(os.path.join('/repo', f), os.path.join(d, f))
    for i in range(0, len(edits), 3):
        f, old, new = edits[i:i+3]
        p = os.path.join(b, f)
        s = open(p).read()
        if old not in s:
            sys.exit(f"mkmut: text not found in {f}: {old!r}")
        open(p, 'w').write(s.replace(old, new, 1))
    r = subprocess.run(['diff', '-ruN', 'a', 'b'], cwd=tmp, capture_output=True, text=True)
    out = os.path.join('/verif/selftest', kind, name + '.patch')
    with open(out, 'w') as fh:
        fh.write(f"# expect: {expect}\n")
        fh.write(r.stdout)
    print("wrote", out)
finally:
    shutil.rmtree(tmp)
