#!/bin/bash
# Must-fail / must-pass corpus runner.
#   selftest/run.sh [ID-prefix]      e.g. selftest/run.sh C04
# Each mutants/<ID>-<nn>-<slug>.patch is applied to a scratch copy of /repo; `govc check -p <ID>` on that copy must
# exit 1 and name the obligation pattern given on the patch's first line ("# expect: <regex>").
# Each benign/<ID>-<nn>-<slug>.patch must leave the check at exit 0.
set -u
VERIF=/verif
sel="${1:-}"
pass=0; fail=0
run_one() {
  local patch="$1" kind="$2"
  local base; base=$(basename "$patch" .patch)
  local id="${base%%-*}"
  local tmp; tmp=$(mktemp -d "${TMPDIR:-/tmp}/govc-selftest.XXXXXX")
  rsync -a --exclude .git /repo/ "$tmp/repo/"
  if ! (cd "$tmp/repo" && patch -p1 -s < "$patch"); then
    echo "SELFTEST-ERROR $base: patch does not apply"; fail=$((fail+1)); rm -rf "$tmp"; return
  fi
  local expect; expect=$(sed -n 's/^# expect: //p' "$patch" | head -1)
  local out; out=$("$VERIF/bin/govc" check -repo "$tmp/repo" -p "$id" -evidence "$tmp/ev.json" -replays "$tmp/replays" 2>&1); local rc=$?
  if [ "$kind" = mutant ]; then
    if [ $rc -eq 1 ] && echo "$out" | grep -q "VIOLATION property=$id" && { [ -z "$expect" ] || echo "$out" | grep -Eq "FAILED .*($expect)|VACUOUS .*($expect)"; }; then
      echo "ok   $base (caught: $(echo "$out" | grep -E '^(FAILED|VACUOUS)' | head -3 | sed 's/^\(FAILED\|VACUOUS\) //; s/:.*//' | tr '\n' ' '))"; pass=$((pass+1))
    else
      echo "MISS $base rc=$rc expect=$expect"; echo "$out" | tail -5 | sed 's/^/     /'; fail=$((fail+1))
    fi
  else
    if [ $rc -eq 0 ]; then echo "ok   $base (no alarm)"; pass=$((pass+1)); else echo "FALSE-ALARM $base"; echo "$out" | tail -5 | sed 's/^/     /'; fail=$((fail+1)); fi
  fi
  rm -rf "$tmp"
}
for p in "$VERIF"/selftest/mutants/${sel}*.patch; do [ -e "$p" ] && run_one "$p" mutant; done
for p in "$VERIF"/selftest/benign/${sel}*.patch; do [ -e "$p" ] && run_one "$p" benign; done
echo "selftest: $pass ok, $fail failed"
[ $fail -eq 0 ]
