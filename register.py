#!/usr/bin/env python3
"""register.py <ID> <design_ref> <text> <note>  — add/replace a check in MANIFEST.json and refresh derived fields."""
import json, subprocess, sys
m = json.load(open('/verif/MANIFEST.json'))
if len(sys.argv) > 1:
    pid, ref, text, note = sys.argv[1:5]
    chk = {"property_id": pid, "quick_cmd": f"/verif/bin/govc check -p {pid} -tier quick", "thorough_cmd": f"/verif/bin/govc check -p {pid} -tier thorough",
           "evidence_file": f"/verif/evidence/{pid}.json", "replay_cmd_template": "/verif/bin/govc replay {path}", "engine": "govc",
           "level_claimed": {"category": "proof", "text": text, "design_ref": ref}, "level_note": note,
           "technique": "contract-based deductive verification (VCs from go/ssa, SMT)"}
    m['checks'] = [c for c in m['checks'] if c['property_id'] != pid] + [chk]
m['checks'].sort(key=lambda c: c['property_id'])
claimed = {c['property_id'] for c in m['checks']}
m['not_applicable'] = [x for x in m['not_applicable'] if x['property_id'] not in claimed]
m['engines'][0]['serves_properties'] = sorted(claimed)
log = subprocess.run(['git', '-C', '/repo', 'log', '--format=%h %s'], capture_output=True, text=True).stdout.splitlines()
m['hooks']['source_commits'] = [l.split()[0] for l in log if ' verif:' in l]
json.dump(m, open('/verif/MANIFEST.json', 'w'), indent=1)
print("claimed:", sorted(claimed))
