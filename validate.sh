#!/bin/sh
# validates MANIFEST.json and all evidence files against the schemas
python3-vt - <<'PY'
import json,glob,jsonschema,sys
ok=True
try:
    jsonschema.validate(json.load(open('/verif/MANIFEST.json')),json.load(open('/root/.vp/MANIFEST.schema.json'))); print('MANIFEST ok')
except Exception as e:
    ok=False; print('MANIFEST INVALID',str(e)[:300])
es=json.load(open('/root/.vp/EVIDENCE.schema.json'))
for f in sorted(glob.glob('/verif/evidence/*.json')):
    try:
        jsonschema.validate(json.load(open(f)),es); print(f,'ok')
    except Exception as e:
        ok=False; print(f,'INVALID',str(e)[:300])
sys.exit(0 if ok else 1)
PY
