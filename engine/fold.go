package main

// Fold ghosts over append-only byte buffers (DESIGN 2.5 (3)).
//
// A fold F with step functions (stepK, stepD) and initial state (initK, initD) gives every []byte value s a state
// (FK(s), FD(s)): the automaton state after reading s[0:len(s)]. The engine knows:
//   len(s) == 0                  ==>  F(s) = init
//   r = append(s, c1, ..., cn)   ==>  F(r) = step(...step(F(s), c1)..., cn)           (explicit bytes, constant strings)
//   r = append(s, x...)          ==>  F(r) = F_run(F(s), x)                           (runs of unknown length)
// F_run is uninterpreted except through run lemmas (stability under a byte predicate) whose one-step obligation is
// proved by SMT and whose extension to arbitrary run length is the engine's induction schema (trusted), and through
// fold links (F_run(init', x) == F'(x) for a fold F' with the same step functions).
//
// Modelling assumption: F is a function of the slice *value*. That is sound as long as no function under contract
// observes two different contents for one slice value, i.e. buffers are append-only while fold facts about them are
// in scope (checked: frame obligations of C03; pooled buffers are truncated only in freeBuffer/freePrefix).

import (
	"fmt"
	"go/constant"
	"go/types"
	"strings"

	"golang.org/x/tools/go/ssa"
)

func (p *Path) foldCtx() *SpecCtx {
	c := p.specCtx()
	c.fn = nil
	c.old = nil
	return c
}

func (p *Path) foldStep(f *FoldDecl, k, d, ch string) (string, string, bool) {
	c := p.foldCtx()
	args := func() []Expr { return []Expr{&EIdent{Name: "%k"}, &EIdent{Name: "%d"}, &EIdent{Name: "%c"}} }
	cc := c.with(map[string]Val{"%k": {T: k, Ty: tInt}, "%d": {T: d, Ty: tInt}, "%c": {T: ch, Ty: tInt}})
	nk, err1 := cc.Eval(&ECall{Fun: f.StepK, Args: args()})
	if f.StepD == "-" {
		// no depth component: D is constantly 0
		if err1 != nil {
			p.specError("fold "+f.Name, Clause{Src: f.StepK}, err1)
			return k, d, false
		}
		return nk.T, "0", true
	}
	nd, err2 := cc.Eval(&ECall{Fun: f.StepD, Args: args()})
	if err1 != nil || err2 != nil {
		p.specError("fold "+f.Name, Clause{Src: f.StepK + "/" + f.StepD}, fmt.Errorf("%v %v", err1, err2))
		return k, d, false
	}
	return nk.T, nd.T, true
}

func (p *Path) foldFns(f *FoldDecl) (fk, fd string) {
	env := p.fx.env
	fk = env.uf("uf_"+sanitize(f.Name+"K"), []string{"Ref", "Int", "Int"}, "Int")
	fd = env.uf("uf_"+sanitize(f.Name+"D"), []string{"Ref", "Int", "Int"}, "Int")
	key := "foldinit:" + f.Name
	if !env.declared[key] {
		env.declared[key] = true
		env.decls = append(env.decls, fmt.Sprintf("(assert (forall ((a Ref) (o Int) (n Int)) (! (=> (= n 0) (and (= (%s a o n) %s) (= (%s a o n) %s))) :pattern ((%s a o n)) :pattern ((%s a o n)))))", fk, smtInt(f.InitK), fd, smtInt(f.InitD), fk, fd))
		env.assumptions["fold ghost "+f.Name+": state is a function of the slice value (append-only buffers)"] = true
		if f.StepD == "-" {
			env.decls = append(env.decls, fmt.Sprintf("(assert (forall ((a Ref) (o Int) (n Int)) (! (= (%s a o n) 0) :pattern ((%s a o n)))))", fd, fd))
		}
	}
	return
}

func (p *Path) foldRunFns(f *FoldDecl, str bool) (rk, rd string) {
	env := p.fx.env
	sfx, srt := "_sl", "Slice"
	if str {
		sfx, srt = "_str", "Str"
	}
	rk = env.uf("uf_"+sanitize(f.Name+"_runK"+sfx), []string{"Int", "Int", srt}, "Int")
	rd = env.uf("uf_"+sanitize(f.Name+"_runD"+sfx), []string{"Int", "Int", srt}, "Int")
	key := "foldrun:" + f.Name + sfx
	if !env.declared[key] {
		env.declared[key] = true
		lenf := "(sl.len x)"
		if str {
			lenf = "(slen x)"
		}
		env.decls = append(env.decls, fmt.Sprintf("(assert (forall ((k Int) (d Int) (x %s)) (! (=> (= %s 0) (and (= (%s k d x) k) (= (%s k d x) d))) :pattern ((%s k d x)))))", srt, lenf, rk, rd, rk))
		if f.StepD == "-" {
			env.decls = append(env.decls, fmt.Sprintf("(assert (forall ((k Int) (d Int) (x %s)) (! (= (%s k d x) d) :pattern ((%s k d x)))))", srt, rd, rd))
		}
	}
	return
}

// foldAppend: r = append(s, t...) for every declared fold.
func (p *Path) foldAppend(in ssa.Instruction, cc *ssa.CallCommon, s, t Val, r string) {
	env := p.fx.env
	elemIsByte := false
	if sl, ok := s.Ty.Underlying().(*types.Slice); ok {
		if b, ok := sl.Elem().Underlying().(*types.Basic); ok && b.Kind() == types.Uint8 {
			elemIsByte = true
		}
	}
	if !elemIsByte {
		return
	}
	for i := range env.specs.Folds {
		f := &env.specs.Folds[i]
		fk, fd := p.foldFns(f)
		k := foldApp(fk, s.T)
		d := foldApp(fd, s.T)
		var bytes []string
		known := false
		// explicit bytes: varargs array literal
		if slc, ok := cc.Args[1].(*ssa.Slice); ok && slc.Low == nil && slc.High == nil {
			if al, ok := slc.X.(*ssa.Alloc); ok {
				if at, ok := al.Type().Underlying().(*types.Pointer).Elem().Underlying().(*types.Array); ok && at.Len() <= 32 {
					h := p.heap(env.memHeap(tByte))
					av := p.val(al).T
					for j := int64(0); j < at.Len(); j++ {
						bytes = append(bytes, fmt.Sprintf("(select %s (idx %s %d))", h, av, j))
					}
					known = true
				}
			}
		}
		if c, ok := cc.Args[1].(*ssa.Const); ok && c.Value != nil && c.Value.Kind() == constant.String {
			str := constant.StringVal(c.Value)
			if len(str) <= 64 {
				for j := 0; j < len(str); j++ {
					bytes = append(bytes, fmt.Sprint(str[j]))
				}
				known = true
			}
		}
		if known {
			for j, b := range bytes {
				nk, nd, ok := p.foldStep(f, k, d, b)
				if !ok {
					return
				}
				kn, dn := p.fx.fresh(f.Name+"k"), p.fx.fresh(f.Name+"d")
				p.declare(kn, "Int")
				p.declare(dn, "Int")
				p.assume(fmt.Sprintf("(and (= %s %s) (= %s %s))", kn, nk, dn, nd))
				k, d = kn, dn
				_ = j
			}
		} else {
			rk, rd := p.foldRunFns(f, env.sortOf(t.Ty) == "Str")
			k, d = fmt.Sprintf("(%s %s %s %s)", rk, k, d, t.T), fmt.Sprintf("(%s %s %s %s)", rd, k, d, t.T)
		}
		p.assume(fmt.Sprintf("(and (= %s %s) (= %s %s))", foldApp(fk, r), k, foldApp(fd, r), d))
	}
}

// foldAxioms: run lemmas and fold links, rendered once per function (after generation, when the UFs in use are known).
func (fx *FnCtx) foldAxioms() {
	env := fx.env
	if len(env.specs.Folds) == 0 {
		return
	}
	p := &Path{fx: fx, vals: map[ssa.Value]Val{}, emitted: map[string]bool{}, vars: map[string]Val{}}
	p.st = State{epoch: "0", epochNow: "now_0", heaps: map[string]string{}, now: "now_0"}
	p.entry = p.st
	find := func(name string) *FoldDecl {
		for i := range env.specs.Folds {
			if env.specs.Folds[i].Name == name {
				return &env.specs.Folds[i]
			}
		}
		return nil
	}
	pred := func(name string, args map[string]Val) (string, bool) {
		c := p.foldCtx().with(args)
		var es []Expr
		pd := env.specs.Pures[name]
		if pd == nil {
			fx.errors = append(fx.errors, "runlemma: no pure function "+name)
			return "", false
		}
		for _, pr := range pd.Params {
			es = append(es, &EIdent{Name: "%" + pr.Name})
		}
		v, err := c.Eval(&ECall{Fun: name, Args: es})
		if err != nil {
			fx.errors = append(fx.errors, "runlemma: "+err.Error())
			return "", false
		}
		return v.T, true
	}
	for _, rl := range env.specs.RunLemmas {
		f := find(rl.Fold)
		if f == nil {
			continue
		}
		for _, str := range []bool{true, false} {
			sfx := "_sl"
			if str {
				sfx = "_str"
			}
			if !env.declared["fun:uf_"+sanitize(f.Name+"_runK"+sfx)] {
				continue
			}
			rk, rd := "uf_"+sanitize(f.Name+"_runK"+sfx), "uf_"+sanitize(f.Name+"_runD"+sfx)
			qpd, ppd := env.specs.Pures[rl.Q], env.specs.Pures[rl.P]
			if qpd == nil || ppd == nil || len(qpd.Params) != 2 || len(ppd.Params) != 1 {
				fx.errors = append(fx.errors, "runlemma "+rl.Name+": Q(k,d) and P(c) must be pure functions")
				continue
			}
			q, ok1 := pred(rl.Q, map[string]Val{"%" + qpd.Params[0].Name: {T: "k", Ty: tInt}, "%" + qpd.Params[1].Name: {T: "d", Ty: tInt}})
			var byteAt, lenx, srt, h string
			if str {
				byteAt, lenx, srt = "(sat x i)", "(slen x)", "Str"
			} else {
				h = p.heapIn(&p.entry, env.memHeap(tByte))
				_ = h
				byteAt, lenx, srt = "(uf_byteOf x i)", "(sl.len x)", "Slice"
				env.uf("uf_byteOf", []string{"Slice", "Int"}, "Int")
			}
			pc, ok2 := pred(rl.P, map[string]Val{"%" + ppd.Params[0].Name: {T: byteAt, Ty: tInt}})
			if !ok1 || !ok2 {
				continue
			}
			if rl.B != "" {
				bpd := env.specs.Pures[rl.B]
				if bpd == nil || len(bpd.Params) != 2 {
					fx.errors = append(fx.errors, "runmove "+rl.Name+": B(k,d) must be a pure function")
					continue
				}
				bq, ok3 := pred(rl.B, map[string]Val{"%" + bpd.Params[0].Name: {T: fmt.Sprintf("(%s k d x)", rk), Ty: tInt}, "%" + bpd.Params[1].Name: {T: fmt.Sprintf("(%s k d x)", rd), Ty: tInt}})
				if !ok3 {
					continue
				}
				env.decls = append(env.decls, fmt.Sprintf("; run lemma %s (induction schema over the run length; one-step obligations lemma.%s.step)\n(assert (forall ((k Int) (d Int) (x %s)) (! (=> (and %s (> %s 0)) (or (exists ((i Int)) (and (<= 0 i) (< i %s) (not %s))) %s)) :pattern ((%s k d x)))))",
					rl.Name, rl.Name, srt, q, lenx, lenx, pc, bq, rk))
				env.assumptions["run lemma "+rl.Name+": induction over the run length (engine schema); its one-step obligations are proved"] = true
				continue
			}
			env.decls = append(env.decls, fmt.Sprintf("; run lemma %s (induction schema over the run length; one-step obligation lemma.%s.step)\n(assert (forall ((k Int) (d Int) (x %s)) (! (=> %s (or (exists ((i Int)) (and (<= 0 i) (< i %s) (not %s))) (and (= (%s k d x) k) (= (%s k d x) d)))) :pattern ((%s k d x)))))",
				rl.Name, rl.Name, srt, q, lenx, pc, rk, rd, rk))
			env.assumptions["run lemma "+rl.Name+": induction over the run length (engine schema); its one-step obligation is proved"] = true
		}
	}
	for _, fl := range env.specs.FoldLinks {
		frag, line := find(fl[0]), find(fl[1])
		if frag == nil || line == nil {
			continue
		}
		if frag.StepK != line.StepK || frag.StepD != line.StepD {
			fx.errors = append(fx.errors, "foldlink: folds "+frag.Name+" and "+line.Name+" have different step functions")
			continue
		}
		if !env.declared["fun:uf_"+sanitize(line.Name+"_runK_sl")] {
			continue
		}
		fk, fd := "uf_"+sanitize(frag.Name+"K"), "uf_"+sanitize(frag.Name+"D")
		env.uf(fk, []string{"Ref", "Int", "Int"}, "Int")
		env.uf(fd, []string{"Ref", "Int", "Int"}, "Int")
		rk, rd := "uf_"+sanitize(line.Name+"_runK_sl"), "uf_"+sanitize(line.Name+"_runD_sl")
		env.decls = append(env.decls, fmt.Sprintf("; fold link: reading x from the initial state of %s is %s(x) by definition\n(assert (forall ((k Int) (d Int) (x Slice)) (! (=> (and (= k %s) (= d %s)) (and (= (%s k d x) %s) (= (%s k d x) %s))) :pattern ((%s k d x)) :pattern ((%s k d x)))))",
			frag.Name, frag.Name, smtInt(frag.InitK), smtInt(frag.InitD), rk, foldApp(fk, "x"), rd, foldApp(fd, "x"), rk, rd))
	}
}

// lemmaObligations: one-step obligations of the run lemmas of the function's package.
func (p *Path) lemmaObligations() {
	fx := p.fx
	env := fx.env
	for _, l := range env.specs.Lemmas {
		if pt := fx.pkgTypes(); l.Pkg != "" && (pt == nil || pt.Path() != l.Pkg) {
			continue
		}
		c := p.foldCtx()
		t, err := c.EvalBool(l.E)
		if err != nil {
			p.specError("lemma "+l.Name, Clause{Src: l.Src}, err)
			continue
		}
		p.items = append(p.items, Item{Ob: &Oblig{Name: fx.short + ".lemma." + l.Name, Fn: fx.short, Kind: "lemma", Clause: l.Src, Formula: t}})
	}
	pkg := fx.pkgTypes()
	if pkg == nil {
		return
	}
	for _, rl := range env.specs.RunLemmas {
		var f *FoldDecl
		for i := range env.specs.Folds {
			if env.specs.Folds[i].Name == rl.Fold && env.specs.Folds[i].Pkg == pkg.Path() {
				f = &env.specs.Folds[i]
			}
		}
		if f == nil {
			continue
		}
		qpd, ppd := env.specs.Pures[rl.Q], env.specs.Pures[rl.P]
		if qpd == nil || ppd == nil || len(qpd.Params) != 2 || len(ppd.Params) != 1 {
			continue
		}
		c := p.foldCtx()
		cq := c.with(map[string]Val{"%k": {T: "lk", Ty: tInt}, "%d": {T: "ld", Ty: tInt}, "%c": {T: "lc", Ty: tInt}})
		q, err1 := cq.Eval(&ECall{Fun: rl.Q, Args: []Expr{&EIdent{Name: "%k"}, &EIdent{Name: "%d"}}})
		pc, err2 := cq.Eval(&ECall{Fun: rl.P, Args: []Expr{&EIdent{Name: "%c"}}})
		nk, nd, ok := p.foldStep(f, "lk", "ld", "lc")
		if err1 != nil || err2 != nil || !ok {
			continue
		}
		if rl.B != "" {
			bpd := env.specs.Pures[rl.B]
			if bpd == nil || len(bpd.Params) != 2 {
				continue
			}
			b0, err3 := cq.Eval(&ECall{Fun: rl.B, Args: []Expr{&EIdent{Name: "%k"}, &EIdent{Name: "%d"}}})
			cb := c.with(map[string]Val{"%k": {T: nk, Ty: tInt}, "%d": {T: nd, Ty: tInt}})
			b1, err4 := cb.Eval(&ECall{Fun: rl.B, Args: []Expr{&EIdent{Name: "%k"}, &EIdent{Name: "%d"}}})
			if err3 != nil || err4 != nil {
				continue
			}
			form := fmt.Sprintf("(forall ((lk Int) (ld Int) (lc Int)) (=> (and (<= 0 lc) (< lc 256) (or %s %s) %s) %s))", q.T, b0.T, pc.T, b1.T)
			ob := &Oblig{Name: fx.short + ".lemma." + rl.Name + ".step", Fn: fx.short, Kind: "lemma", Clause: fmt.Sprintf("one step of run lemma %s: (%s(k,d) || %s(k,d)) && %s(c) ==> %s(step(k,d,c))", rl.Name, rl.Q, rl.B, rl.P, rl.B), Formula: form}
			p.items = append(p.items, Item{Ob: ob})
			continue
		}
		form := fmt.Sprintf("(forall ((lk Int) (ld Int) (lc Int)) (=> (and (<= 0 lc) (< lc 256) %s %s) (and (= %s lk) (= %s ld))))", q.T, pc.T, nk, nd)
		ob := &Oblig{Name: fx.short + ".lemma." + rl.Name + ".step", Fn: fx.short, Kind: "lemma", Clause: fmt.Sprintf("one step of run lemma %s: %s(k,d) && %s(c) ==> step(k,d,c) == (k,d)", rl.Name, rl.Q, rl.P), Formula: form}
		p.items = append(p.items, Item{Ob: ob})
	}
	_ = strings.TrimSpace
}

// foldApp: a fold accessor applied to a slice value: the state depends on (array, offset, length) only, not on the capacity.
func foldApp(f, s string) string {
	return fmt.Sprintf("(%s (sl.arr %s) (sl.off %s) (sl.len %s))", f, s, s, s)
}
