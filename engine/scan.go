package main

// Structural obligations decided on the SSA directly (no solver): reported with back end "scan".
//
//   chan-roles:<pkg>   every send / receive / close on a channel stored in a struct field of the package happens in a
//                      function the contract file allows for that field and operation (`//@ chanrole T.f send:F,G recv:H`);
//                      channel operations on channels of the same element type whose origin cannot be traced fail.
//   start-sync:<pkg>   the interface method named in `//@ syncall I.M in F` has exactly one call site in the package, it is
//                      in F, and it is a plain synchronous call (not go / defer).

import (
	"fmt"
	"go/token"
	"go/types"
	"sort"
	"strings"

	"golang.org/x/tools/go/ssa"
)

func (v *Verifier) pkgFunctions(pkgName string) []*ssa.Function {
	var out []*ssa.Function
	for _, fn := range v.funcs {
		root := fn
		for root.Parent() != nil {
			root = root.Parent()
		}
		if root.Pkg != nil && root.Pkg.Pkg.Name() == pkgName && strings.HasPrefix(root.Pkg.Pkg.Path(), repoModule) && fn.Blocks != nil {
			out = append(out, fn)
		}
	}
	sort.Slice(out, func(i, j int) bool { return out[i].String() < out[j].String() })
	return out
}

// chanOrigin traces a channel value back to the struct field it was loaded from ("T.f"), or "".
func chanOrigin(v ssa.Value) string {
	for depth := 0; depth < 8; depth++ {
		switch x := v.(type) {
		case *ssa.UnOp:
			if x.Op != token.MUL {
				return ""
			}
			v = x.X
		case *ssa.IndexAddr:
			v = x.X
		case *ssa.FieldAddr:
			st := x.X.Type().Underlying().(*types.Pointer).Elem()
			return ghostOwner(st) + "." + st.Underlying().(*types.Struct).Field(x.Field).Name()
		case *ssa.Phi:
			return ""
		default:
			return ""
		}
	}
	return ""
}

func (v *Verifier) runScan(name string, results map[string]*ObResult) {
	kind, pkg, _ := strings.Cut(name, ":")
	add := func(ob, clause string, ok bool) {
		r := &ObResult{Name: "scan." + kind + "." + ob, Fn: pkg, Kind: "scan", Clause: clause, Status: "discharged", Instances: 1, Solvers: []string{"scan"}}
		if !ok {
			r.Status = "failed"
			r.Fail = &Failure{Answers: map[string]string{"scan": "violated"}, Formula: clause}
		}
		results[r.Name] = r
	}
	switch kind {
	case "chan-roles":
		allowed := map[string]map[string]bool{} // "T.f/op" -> functions
		var elemTypes []types.Type
		for _, cr := range v.specs.ChanRoles {
			for op, fns := range cr.Ops {
				k := cr.Field + "/" + op
				if allowed[k] == nil {
					allowed[k] = map[string]bool{}
				}
				for _, f := range fns {
					allowed[k][f] = true
				}
			}
		}
		found := map[string][]string{}
		var bad []string
		record := func(fn *ssa.Function, ch ssa.Value, op string) {
			origin := chanOrigin(ch)
			ct, _ := ch.Type().Underlying().(*types.Chan)
			if origin == "" {
				// untraceable: only a problem if the element type is one of the lane channels' element types
				if ct != nil {
					for _, et := range elemTypes {
						if types.Identical(et, ct.Elem()) {
							bad = append(bad, fmt.Sprintf("%s: %s on a channel of %s whose origin cannot be traced", fn.Name(), op, et))
						}
					}
				}
				return
			}
			short := origin[strings.Index(origin, ".")+1:]
			k := short + "/" + op
			found[k] = append(found[k], fn.Name())
			if _, declared := allowed[short+"/send"]; !declared {
				if _, d2 := allowed[short+"/recv"]; !d2 {
					return // field has no declared roles
				}
			}
			if !allowed[k][fn.Name()] {
				bad = append(bad, fmt.Sprintf("%s performs %s on %s", fn.Name(), op, short))
			}
		}
		fns := v.pkgFunctions(pkg)
		// element types of the declared channel fields
		for _, fn := range fns {
			for _, b := range fn.Blocks {
				for _, in := range b.Instrs {
					if fa, ok := in.(*ssa.FieldAddr); ok {
						st := fa.X.Type().Underlying().(*types.Pointer).Elem()
						f := st.Underlying().(*types.Struct).Field(fa.Field)
						short := ghostOwner(st)
						short = short[strings.Index(short, ".")+1:] + "." + f.Name()
						if _, d := allowed[short+"/send"]; d {
							t := f.Type()
							if sl, ok := t.Underlying().(*types.Slice); ok {
								t = sl.Elem()
							}
							if ct, ok := t.Underlying().(*types.Chan); ok {
								elemTypes = append(elemTypes, ct.Elem())
							}
						}
					}
				}
			}
		}
		for _, fn := range fns {
			for _, b := range fn.Blocks {
				for _, in := range b.Instrs {
					switch i := in.(type) {
					case *ssa.Send:
						record(fn, i.Chan, "send")
					case *ssa.UnOp:
						if i.Op == token.ARROW {
							record(fn, i.X, "recv")
						}
					case *ssa.Select:
						for _, s := range i.States {
							if s.Dir == types.SendOnly {
								record(fn, s.Chan, "send")
							} else {
								record(fn, s.Chan, "recv")
							}
						}
					case ssa.CallInstruction:
						if b, ok := i.Common().Value.(*ssa.Builtin); ok && b.Name() == "close" {
							record(fn, i.Common().Args[0], "close")
						}
					}
				}
			}
		}
		var fk []string
		for k, f := range found {
			sort.Strings(f)
			fk = append(fk, k+"="+strings.Join(uniqStrings(f), ","))
		}
		sort.Strings(fk)
		add(pkg, fmt.Sprintf("channel roles in package %s: %s; violations: %v", pkg, strings.Join(fk, " "), bad), len(bad) == 0)
	case "start-sync":
		for _, sc := range v.specs.SyncCalls {
			var sites []string
			ok := true
			for _, fn := range v.pkgFunctions(pkg) {
				for _, b := range fn.Blocks {
					for _, in := range b.Instrs {
						ci, isCall := in.(ssa.CallInstruction)
						if !isCall || !ci.Common().IsInvoke() {
							continue
						}
						cc := ci.Common()
						if cc.Method.Name() != sc.Method || !strings.HasSuffix(qualTypeName(cc.Value.Type()), "."+sc.Iface) {
							continue
						}
						mode := "call"
						switch in.(type) {
						case *ssa.Go:
							mode = "go"
						case *ssa.Defer:
							mode = "defer"
						}
						sites = append(sites, fn.Name()+":"+mode)
						if fn.Name() != sc.In || mode != "call" {
							ok = false
						}
					}
				}
			}
			if len(sites) != 1 {
				ok = false
			}
			add(sc.Iface+"."+sc.Method, fmt.Sprintf("%s.%s is called exactly once, synchronously, in %s; call sites: %v", sc.Iface, sc.Method, sc.In, sites), ok)
		}
	default:
		results["scan."+name] = &ObResult{Name: "scan." + name, Kind: "scan", Status: "failed", Clause: "unknown scan " + name, Fail: &Failure{Answers: map[string]string{}}}
	}
}

func uniqStrings(a []string) []string {
	var out []string
	for i, s := range a {
		if i == 0 || s != a[i-1] {
			out = append(out, s)
		}
	}
	return out
}
