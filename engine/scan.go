package main

// Structural obligations decided on the SSA directly (no solver): reported with back end "scan".

func (v *Verifier) runScan(name string, results map[string]*ObResult) {
	results["scan."+name] = &ObResult{Name: "scan." + name, Kind: "scan", Status: "failed", Clause: "unknown scan " + name, Fail: &Failure{Answers: map[string]string{}}}
}
