package main

import (
	"fmt"
	"go/token"
	"go/types"
	"strings"

	"golang.org/x/tools/go/ssa"
)

func (p *Path) exec(in ssa.Instruction) {
	env := p.fx.env
	switch i := in.(type) {
	case *ssa.DebugRef:
	case *ssa.Alloc:
		n := p.fx.fresh("alloc_" + i.Comment)
		p.declare(n, "Ref")
		if isStackCell(i) {
			p.allocFreshTag(n, -5)
		} else {
			p.allocFresh(n)
		}
		for k, a := range p.fx.allocs {
			if a == i {
				p.assume(fmt.Sprintf("(= (iidx %s) %d)", n, k))
			}
		}
		p.vals[i] = Val{T: n, Ty: i.Type()}
	case *ssa.BinOp:
		p.vals[i] = p.binop(i, false)
	case *ssa.UnOp:
		if i.Op == token.ARROW {
			p.vals[i] = p.recv(i)
			return
		}
		p.vals[i] = p.unop(i, false)
	case *ssa.Convert:
		v, ok := p.convert(i)
		if !ok {
			p.unsupported("convert "+i.X.Type().String()+" -> "+i.Type().String(), i)
			v = p.freshVal("conv", i.Type())
		}
		p.vals[i] = v
	case *ssa.ChangeType:
		x := p.val(i.X)
		p.vals[i] = Val{T: x.T, Ty: i.Type()}
	case *ssa.ChangeInterface:
		x := p.val(i.X)
		p.vals[i] = Val{T: x.T, Ty: i.Type()}
	case *ssa.MakeInterface:
		x := p.val(i.X)
		f := env.mkIfaceFn(i.X.Type())
		p.vals[i] = Val{T: fmt.Sprintf("(%s %s)", f, x.T), Ty: i.Type()}
	case *ssa.TypeAssert:
		p.vals[i] = p.typeAssert(i)
	case *ssa.Extract:
		t := p.val(i.Tuple)
		if i.Index < len(t.Tuple) {
			p.vals[i] = t.Tuple[i.Index]
		} else {
			p.unsupported("extract from non-tuple", i)
			p.vals[i] = p.freshVal("ext", i.Type())
		}
	case *ssa.FieldAddr:
		x := p.val(i.X)
		p.nilCheck(x.T, p.fx.site(i, "field"), i)
		st := i.X.Type().Underlying().(*types.Pointer).Elem()
		p.vals[i] = Val{T: fmt.Sprintf("(%s %s)", env.fieldFn(st, i.Field), x.T), Ty: i.Type()}
	case *ssa.Field:
		x := p.val(i.X)
		p.vals[i] = Val{T: env.structFieldVal(i.X.Type(), x.T, i.Field), Ty: i.Type()}
	case *ssa.IndexAddr:
		x := p.val(i.X)
		ix := p.val(i.Index)
		site := p.fx.site(i, "index")
		switch u := i.X.Type().Underlying().(type) {
		case *types.Slice:
			f := fmt.Sprintf("(and (<= 0 %s) (< %s (sl.len %s)))", ix.T, ix.T, x.T)
			p.oblige("bounds", site, "0 <= index < len in "+i.String(), f)
			p.assume(f)
			p.vals[i] = Val{T: elemAddr(x.T, ix.T), Ty: i.Type()}
		case *types.Pointer:
			n := u.Elem().Underlying().(*types.Array).Len()
			p.nilCheck(x.T, site, i)
			f := fmt.Sprintf("(and (<= 0 %s) (< %s %d))", ix.T, ix.T, n)
			p.oblige("bounds", site, fmt.Sprintf("0 <= index < %d in %s", n, i.String()), f)
			p.assume(f)
			p.vals[i] = Val{T: fmt.Sprintf("(idx %s %s)", x.T, ix.T), Ty: i.Type()}
		default:
			p.unsupported("indexaddr", i)
		}
	case *ssa.Index:
		x := p.val(i.X)
		ix := p.val(i.Index)
		site := p.fx.site(i, "index")
		switch u := i.X.Type().Underlying().(type) {
		case *types.Array:
			f := fmt.Sprintf("(and (<= 0 %s) (< %s %d))", ix.T, ix.T, u.Len())
			p.oblige("bounds", site, fmt.Sprintf("0 <= index < %d in %s", u.Len(), i.String()), f)
			p.assume(f)
			p.vals[i] = Val{T: fmt.Sprintf("(select %s %s)", x.T, ix.T), Ty: i.Type()}
		case *types.Basic:
			f := fmt.Sprintf("(and (<= 0 %s) (< %s (slen %s)))", ix.T, ix.T, x.T)
			p.oblige("bounds", site, "0 <= index < len in "+i.String(), f)
			p.assume(f)
			p.vals[i] = Val{T: fmt.Sprintf("(sat %s %s)", x.T, ix.T), Ty: i.Type()}
		default:
			p.unsupported("index", i)
		}
	case *ssa.Lookup:
		x := p.val(i.X)
		k := p.val(i.Index)
		switch u := i.X.Type().Underlying().(type) {
		case *types.Basic:
			site := p.fx.site(i, "index")
			f := fmt.Sprintf("(and (<= 0 %s) (< %s (slen %s)))", k.T, k.T, x.T)
			p.oblige("bounds", site, "0 <= index < len in "+i.String(), f)
			p.assume(f)
			p.vals[i] = Val{T: fmt.Sprintf("(sat %s %s)", x.T, k.T), Ty: i.Type()}
		case *types.Map:
			hh, hv := env.mapHeaps(u)
			p.usedMem = true
			p.guardMap(i.X, false, p.fx.site(i, "lookup"))
			has := fmt.Sprintf("(select (select %s %s) %s)", p.heap(hh), x.T, k.T)
			val := fmt.Sprintf("(ite %s (select (select %s %s) %s) %s)", has, p.heap(hv), x.T, k.T, env.zeroOf(u.Elem()))
			vn := p.fx.fresh("mv")
			p.declare(vn, env.sortOf(u.Elem()))
			p.assume(fmt.Sprintf("(= %s %s)", vn, val))
			p.assumeWF(vn, u.Elem())
			if i.CommaOk {
				p.vals[i] = Val{Tuple: []Val{{T: vn, Ty: u.Elem()}, {T: has, Ty: tBool}}, Ty: i.Type()}
			} else {
				p.vals[i] = Val{T: vn, Ty: i.Type()}
			}
		}
	case *ssa.MapUpdate:
		m := p.val(i.Map)
		k := p.val(i.Key)
		v := p.val(i.Value)
		site := p.fx.site(i, "mapupdate")
		p.oblige("nilmap", site, "assignment to entry in non-nil map: "+i.String(), fmt.Sprintf("(not (= %s nil))", m.T))
		p.assume(fmt.Sprintf("(not (= %s nil))", m.T))
		mt := i.Map.Type().Underlying().(*types.Map)
		hh, hv := env.mapHeaps(mt)
		p.guardMap(i.Map, true, site)
		p.frameCheck(site, []Loc{{Heap: hh, Addr: m.T, MapRow: true}})
		p.setHeap(hh, fmt.Sprintf("(store %s %s (store (select %s %s) %s true))", p.heap(hh), m.T, p.heap(hh), m.T, k.T))
		p.setHeap(hv, fmt.Sprintf("(store %s %s (store (select %s %s) %s %s))", p.heap(hv), m.T, p.heap(hv), m.T, k.T, v.T))
	case *ssa.Store:
		a := p.val(i.Addr)
		v := p.val(i.Val)
		site := p.fx.site(i, "store")
		p.nilCheck(a.T, site, i)
		t := i.Addr.Type().Underlying().(*types.Pointer).Elem()
		p.guardCheck(i.Addr, true, site)
		p.frameCheck(site, p.flatLocs(a.T, t))
		p.store(a.T, t, v.T)
		// a store into an exported field of an opaque struct: the struct's value as a whole is a different one now
		if fa, ok := i.Addr.(*ssa.FieldAddr); ok {
			bt := fa.X.Type().Underlying().(*types.Pointer).Elem()
			if _, isSt := bt.Underlying().(*types.Struct); isSt && !structIsData(bt) {
				hn := env.memHeap(bt)
				w := p.fx.fresh("whole")
				p.declare(w, env.sortOf(bt))
				p.setHeap(hn, fmt.Sprintf("(store %s %s %s)", p.heap(hn), p.val(fa.X).T, w))
			}
		}
	case *ssa.Slice:
		p.vals[i] = p.sliceInstr(i)
	case *ssa.MakeSlice:
		ln, cp := p.val(i.Len), p.val(i.Cap)
		site := p.fx.site(i, "makeslice")
		p.oblige("bounds", site, "0 <= len <= cap in "+i.String(), fmt.Sprintf("(and (<= 0 %s) (<= %s %s) (<= %s 72057594037927936))", ln.T, ln.T, cp.T, cp.T))
		arr := p.fx.fresh("arr")
		p.declare(arr, "Ref")
		p.allocFresh(arr)
		p.vals[i] = Val{T: fmt.Sprintf("(mk_slice %s 0 %s %s)", arr, ln.T, cp.T), Ty: i.Type()}
	case *ssa.MakeMap:
		m := p.fx.fresh("map")
		p.declare(m, "Ref")
		p.allocFresh(m)
		p.vals[i] = Val{T: m, Ty: i.Type()}
	case *ssa.MakeChan:
		ch := p.fx.fresh("chan")
		p.declare(ch, "Ref")
		p.allocFresh(ch)
		sz := p.val(i.Size)
		f := env.uf("chan_cap", []string{"Ref"}, "Int")
		p.assume(fmt.Sprintf("(= (%s %s) %s)", f, ch, sz.T))
		p.oblige("bounds", p.fx.site(i, "makechan"), "channel size is non-negative", fmt.Sprintf("(>= %s 0)", sz.T))
		p.vals[i] = Val{T: ch, Ty: i.Type()}
	case *ssa.MakeClosure:
		c := p.fx.fresh("clo")
		p.declare(c, "Ref")
		p.allocFresh(c)
		if p.closures == nil {
			p.closures = map[string]*ssa.MakeClosure{}
		}
		p.closures[c] = i
		p.vals[i] = Val{T: c, Ty: i.Type()}
	case *ssa.Call:
		p.vals[i] = p.call(i, &i.Call, "call")
	case *ssa.Go:
		p.call(i, &i.Call, "go")
	case *ssa.Defer:
		rec := deferRec{instr: i}
		for _, a := range i.Call.Args {
			rec.args = append(rec.args, p.val(a))
		}
		if !i.Call.IsInvoke() {
			rec.fnVal = p.val(i.Call.Value)
		} else {
			rec.fnVal = p.val(i.Call.Value)
		}
		p.defers = append(p.defers, rec)
	case *ssa.RunDefers:
		p.runDefers()
	case *ssa.Select:
		p.vals[i] = p.selectInstr(i)
	case *ssa.Send:
		p.send(i)
	default:
		p.unsupported(fmt.Sprintf("instruction %T", in), in)
		if v, ok := in.(ssa.Value); ok {
			p.vals[v] = p.freshVal("unsup", v.Type())
		}
	}
}

func (p *Path) typeAssert(i *ssa.TypeAssert) Val {
	env := p.fx.env
	x := p.val(i.X)
	site := p.fx.site(i, "assert")
	_, toIface := i.AssertedType.Underlying().(*types.Interface)
	var okT, valT string
	if toIface {
		f := env.uf("implements_"+sanitize(shortTypeName(i.AssertedType)), []string{"Int"}, "Bool")
		okT = fmt.Sprintf("(and (not (= %s iface_nil)) (%s (iface_type %s)))", x.T, f, x.T)
		valT = x.T
		// concrete types known to implement / not implement
		p.implFacts(f, i.AssertedType)
	} else {
		okT = fmt.Sprintf("(= (iface_type %s) %d)", x.T, env.typeTagOf(i.AssertedType))
		valT = fmt.Sprintf("(%s %s)", env.ifacePayloadFn(i.AssertedType), x.T)
	}
	if i.CommaOk {
		vn := p.fx.fresh("ta")
		p.declare(vn, env.sortOf(i.AssertedType))
		p.assume(fmt.Sprintf("(= %s (ite %s %s %s))", vn, okT, valT, env.zeroOf(i.AssertedType)))
		p.assumeWF(vn, i.AssertedType)
		return Val{Tuple: []Val{{T: vn, Ty: i.AssertedType}, {T: okT, Ty: tBool}}, Ty: i.Type()}
	}
	p.oblige("assert", site, "type assertion cannot fail: "+i.String(), okT)
	p.assume(okT)
	vn := p.fx.fresh("ta")
	p.declare(vn, env.sortOf(i.AssertedType))
	p.assume(fmt.Sprintf("(= %s %s)", vn, valT))
	p.assumeWF(vn, i.AssertedType)
	return Val{T: vn, Ty: i.Type()}
}

// implFacts: for every concrete type tag already known, state whether it implements the interface.
func (p *Path) implFacts(f string, it types.Type) {
	env := p.fx.env
	iface := it.Underlying().(*types.Interface)
	for _, ct := range env.typeTagT {
		key := fmt.Sprintf("impl:%s:%d", f, env.typeTagOf(ct))
		if p.emitted[key] {
			continue
		}
		p.emitted[key] = true
		if types.Implements(ct, iface) {
			p.assume(fmt.Sprintf("(%s %d)", f, env.typeTagOf(ct)))
		} else {
			p.assume(fmt.Sprintf("(not (%s %d))", f, env.typeTagOf(ct)))
		}
	}
}

// ---------- frame ----------

// frameCheck: every written location is fresh in this call or covered by the function's modifies clause.
func (p *Path) frameCheck(site string, locs []Loc) {
	fx := p.fx
	if p.quiet || fx.spec == nil || fx.spec.ModAll {
		return
	}
	ownedAt := p.ownedAt
	for _, l := range locs {
		fx.mayWrite[l.Heap] = true
		var f string
		switch {
		case l.Pred != "" || l.AllTag != 0:
			f = fmt.Sprintf("(forall ((a Ref)) (=> %s (or (and (> (stamp a) now_0) (< (ftag a) 2000000)) %s)))", locCond(l, "a"), p.modCond(l.Heap, "a"))
		case l.All:
			f = fmt.Sprintf("(forall ((a Ref)) (or (> (stamp a) now_0) %s))", p.modCond(l.Heap, "a"))
		case l.MapRow:
			f = fmt.Sprintf("(or (> (stamp %s) now_0) %s)", l.Addr, p.modCond(l.Heap, l.Addr))
		case l.Region && l.Inner > 0:
			f = fmt.Sprintf("(or (> (stamp %s) now_0) (forall ((k Int) (j Int)) (=> (and (<= %s k) (< k %s) (<= 0 j) (< j %d)) %s)))", l.Addr, l.Lo, l.Hi, l.Inner, p.modCond(l.Heap, fmt.Sprintf("(idx (idx %s k) j)", l.Addr)))
		case l.Region:
			wrap := func(a string) string {
				if l.FieldFn != "" {
					return fmt.Sprintf("(%s %s)", l.FieldFn, a)
				}
				return a
			}
			a := wrap(fmt.Sprintf("(idx %s k)", l.Addr))
			f = fmt.Sprintf("(or (> (stamp %s) now_0) (forall ((k Int)) (=> (and (<= %s k) (< k %s)) (or %s %s))))", l.Addr, l.Lo, l.Hi, p.modCond(l.Heap, a), ownedAt(a))
		default:
			// (a marker ghost field (declared on `any`) of a fresh object is not "fresh memory": callers keep markers
			// outside the modifies clause, also on objects the callee allocated)
			f = fmt.Sprintf("(or (and (> (stamp %s) now_0) (< (ftag %s) 2000000)) %s %s)", l.Addr, l.Addr, p.modCond(l.Heap, l.Addr), ownedAt(l.Addr))
		}
		p.oblige("frame", site, "write is to fresh memory, pool-owned memory or within the modifies clause", f)
	}
}

// ---------- ghost helpers ----------

func (p *Path) ghostAddr(name string) string {
	c := p.specCtx()
	return c.ghostVarAddr(name)
}

func (p *Path) setGhost(name string, t types.Type, v string) {
	a := p.ghostAddr(name)
	hn := p.fx.env.memHeap(t)
	p.setHeap(hn, fmt.Sprintf("(store %s %s %s)", p.heap(hn), a, v))
}

func (p *Path) getGhost(name string, t types.Type) string {
	a := p.ghostAddr(name)
	return fmt.Sprintf("(select %s %s)", p.heap(p.fx.env.memHeap(t)), a)
}

// ---------- guarded-by (lockset) ----------

func (p *Path) guardCheck(addr ssa.Value, write bool, site string) {
	fa, ok := addr.(*ssa.FieldAddr)
	if !ok {
		// element of a guarded array/slice field: look through IndexAddr
		if ia, ok := addr.(*ssa.IndexAddr); ok {
			p.guardCheck(ia.X, write, site)
		}
		return
	}
	st := fa.X.Type().Underlying().(*types.Pointer).Elem()
	s := st.Underlying().(*types.Struct)
	fname := s.Field(fa.Field).Name()
	owner := ghostOwner(st)
	for _, g := range p.fx.env.specs.Guards {
		if g.Field != fname || !(g.Type == owner || strings.HasSuffix(owner, "."+g.Type)) {
			continue
		}
		p.fx.guardSeen = true
		if p.fx.spec != nil && p.fx.spec.Attrs["constructor"] != "" {
			return
		}
		switch g.Mode {
		case "guarded":
			c := p.specCtx().with(map[string]Val{"x": p.val(fa.X)})
			c.fn = nil
			cond := g.ReadCond
			kind := "read"
			if write {
				cond = g.WriteCond
				kind = "write"
			}
			t, err := c.EvalBool(cond)
			if err != nil {
				p.specError("shared "+g.Src, Clause{Src: g.Src}, err)
				return
			}
			p.oblige("lockset."+fname+"."+kind, site, g.Src, t)
		case "immutable":
			if write {
				p.oblige("immutable."+fname, site, g.Src, "false")
			}
		case "atomic":
			p.oblige("atomic-only."+fname, site, g.Src+" (plain access)", "false")
		}
	}
	// nested: field of a guarded embedded struct
	if inner, ok := fa.X.(*ssa.FieldAddr); ok {
		p.guardCheck(inner, write, site)
	}
}

// guardMap: the contents of a map that was loaded directly from a guarded location are guarded like it.
func (p *Path) guardMap(m ssa.Value, write bool, site string) {
	if ld, ok := m.(*ssa.UnOp); ok && ld.Op == token.MUL {
		p.guardCheck(ld.X, write, site)
	}
}

// ownedAt: the address belongs to an object this thread owns exclusively (an item taken from a sync.Pool, or the
// backing array of a pooled buffer): ghost field `owned` on the object (ghost state, so it survives arbitrary calls).
func (p *Path) ownedAt(a string) string {
	h := p.heap(p.fx.env.memHeap(tBool))
	var ds []string
	for _, f := range p.fx.env.ownedFields() {
		ds = append(ds, fmt.Sprintf("(select %s (%s %s))", h, f, a), fmt.Sprintf("(and (= (ftag %s) (- 1)) (select %s (%s (ibase %s))))", a, h, f, a))
	}
	return "(or " + strings.Join(ds, " ") + ")"
}

// ownedFields: the ownership markers: the generic one and one per declared pool.
func (e *Env) ownedFields() []string {
	out := []string{e.fieldFnNamed("gfld_any_owned")}
	for _, pi := range e.specs.Pools {
		out = append(out, e.fieldFnNamed("gfld_any_owned_"+sanitize(pi.Field)))
	}
	return out
}

func (p *Path) setOwned(pool, obj string, v string) {
	f := p.fx.env.fieldFnNamed("gfld_any_owned_" + sanitize(pool))
	hn := p.fx.env.memHeap(tBool)
	p.setHeap(hn, fmt.Sprintf("(store %s (%s %s) %s)", p.heap(hn), f, obj, v))
}
