package main

// Path enumeration between cut points, calls, returns, loop heads.

import (
	"fmt"
	"go/ast"
	"go/token"
	"go/types"
	"sort"
	"strconv"
	"strings"

	"golang.org/x/tools/go/ssa"
)

func specKeyOf(fn *ssa.Function) string {
	if o := fn.Origin(); o != nil {
		fn = o
	}
	root := fn
	for root.Parent() != nil {
		root = root.Parent()
	}
	pkgPath := ""
	if root.Pkg != nil {
		pkgPath = root.Pkg.Pkg.Path()
	} else if root.Object() != nil && root.Object().Pkg() != nil {
		pkgPath = root.Object().Pkg().Path()
	}
	name := fn.Name()
	if recv := root.Signature.Recv(); recv != nil {
		rt := recv.Type()
		ptr := ""
		if pt, ok := rt.(*types.Pointer); ok {
			rt = pt.Elem()
			ptr = "*"
		}
		tn := rt.String()
		if n, ok := rt.(*types.Named); ok {
			tn = n.Obj().Name()
			if n.Obj().Pkg() != nil {
				pkgPath = n.Obj().Pkg().Path()
			}
		}
		return fmt.Sprintf("%s.(%s%s).%s", pkgPath, ptr, tn, name)
	}
	return pkgPath + "." + name
}

func shortKey(key string) string {
	// strip the directory part of the package path: github.com/x/y/httpd.findRoute -> httpd.findRoute
	i := strings.LastIndex(key, "/")
	if j := strings.Index(key, "."); j >= 0 && (i < 0 || j < i) {
		// dot inside domain name; find the last slash before the first '(' or after
	}
	if i >= 0 {
		return key[i+1:]
	}
	return key
}

func (fx *FnCtx) site(instr ssa.Instruction, kind string) string {
	if s, ok := fx.siteName[instr]; ok {
		return s
	}
	fx.siteCount[kind]++
	s := fmt.Sprintf("%s#%d", kind, fx.siteCount[kind])
	fx.siteName[instr] = s
	return s
}

// assignSites numbers instruction sites deterministically (block order, then instruction order) before execution.
func (fx *FnCtx) assignSites() {
	for _, b := range fx.fn.Blocks {
		for _, in := range b.Instrs {
			switch i := in.(type) {
			case *ssa.Slice:
				fx.site(in, "slice")
			case *ssa.IndexAddr, *ssa.Index:
				fx.site(in, "index")
			case *ssa.Lookup:
				if _, isMap := i.X.Type().Underlying().(*types.Map); !isMap {
					fx.site(in, "index")
				}
			case *ssa.Store:
				fx.site(in, "store")
			case *ssa.MapUpdate:
				fx.site(in, "mapupdate")
			case *ssa.UnOp:
				if i.Op == token.MUL {
					fx.site(in, "load")
				} else if i.Op == token.ARROW {
					fx.site(in, "recv")
				} else if i.Op == token.SUB {
					fx.site(in, "arith")
				}
			case *ssa.BinOp:
				switch i.Op {
				case token.ADD, token.SUB, token.MUL, token.QUO, token.REM, token.SHL:
					fx.site(in, "arith")
				}
			case *ssa.FieldAddr:
				fx.site(in, "field")
			case *ssa.Select:
				fx.site(in, "select")
			case *ssa.Send:
				fx.site(in, "send")
			case *ssa.TypeAssert:
				fx.site(in, "assert")
			case *ssa.Return:
				fx.site(in, "return")
			case *ssa.Panic:
				fx.site(in, "panic")
			case ssa.CallInstruction:
				cc := i.Common()
				fx.site(in, "call("+calleeShort(cc)+")")
			}
		}
	}
}

func calleeShort(cc *ssa.CallCommon) string {
	if cc.IsInvoke() {
		return cc.Method.Name()
	}
	switch v := cc.Value.(type) {
	case *ssa.Function:
		n := v.Name()
		if o := v.Origin(); o != nil {
			n = o.Name()
		}
		return n
	case *ssa.Builtin:
		return v.Name()
	case *ssa.MakeClosure:
		return v.Fn.Name()
	}
	if n, ok := cc.Value.Type().(*types.Named); ok {
		return n.Obj().Name()
	}
	return "dynamic"
}

// ---------- driver ----------

func (v *Verifier) newFnCtx(fn *ssa.Function, spec *FuncSpec) *FnCtx {
	env := NewEnv(v.prog, v.specs)
	key := specKeyOf(fn)
	fx := &FnCtx{env: env, fn: fn, spec: spec, key: key, short: shortKey(key), loopHeads: map[*ssa.BasicBlock]int{},
		siteCount: map[string]int{}, siteName: map[ssa.Instruction]string{}, maxPaths: 4000, mayWrite: map[string]bool{}, v: v, selectSeen: map[string]bool{}}
	fx.loopList = findLoopHeads(fn)
	for i, b := range fx.loopList {
		fx.loopHeads[b] = i + 1
	}
	for _, b := range fn.Blocks {
		for _, in := range b.Instrs {
			if a, ok := in.(*ssa.Alloc); ok {
				fx.allocs = append(fx.allocs, a)
			}
		}
	}
	fx.assignSites()
	return fx
}

// generate produces all scripts of the function. Two passes: the first discovers which heaps the function may
// write (so that loop heads only havoc those), the second generates the scripts that are solved.
func (fx *FnCtx) generate() {
	fx.modAll = true
	fx.runAll()
	written := fx.mayWrite
	fx.writesAll = fx.wroteAll
	fx.names = nil
	fx.scripts, fx.errors, fx.npaths, fx.nfresh = nil, nil, 0, 0
	fx.env = NewEnv(fx.v.prog, fx.v.specs)
	fx.mayWrite = written
	fx.modAll = false
	fx.recording = false
	fx.runAll()
	fx.foldAxioms()
	fx.renderAxioms()
}

// renderAxioms: spec-level axioms (lemmas about uninterpreted spec functions) are included when every
// uninterpreted function they mention is used by this function's VCs.
func (fx *FnCtx) renderAxioms() {
	env := fx.env
	all := append([]AxiomDecl{}, env.specs.Axioms...)
	for _, l := range env.specs.Lemmas {
		if fx.spec != nil && fx.spec.Attrs["lemmas"] != "" {
			continue // the function that proves the lemmas does not assume them
		}
		all = append(all, l)
	}
	for _, ax := range all {
		if pt := fx.pkgTypes(); ax.Pkg != "" && (pt == nil || pt.Path() != ax.Pkg) {
			continue
		}
		ok := true
		walkCalls(ax.E, func(name string) {
			if _, isUF := env.specs.UFs[name]; isUF && !env.declared["fun:uf_"+sanitize(name)] {
				ok = false
			}
		})
		if !ok {
			continue
		}
		p := &Path{fx: fx, vals: map[ssa.Value]Val{}, emitted: map[string]bool{}, vars: map[string]Val{}}
		p.st = State{epoch: "0", epochNow: "now_0", heaps: map[string]string{}, now: "now_0"}
		p.entry = p.st
		c := &SpecCtx{p: p, st: &p.st, vars: map[string]Val{}, pkg: fx.pkgTypes()}
		t, err := c.EvalBool(ax.E)
		if err != nil {
			fx.errors = append(fx.errors, fmt.Sprintf("axiom %s: %v", ax.Name, err))
			continue
		}
		// entry heaps the axiom reads are declared (with their well-formedness facts) in front of it
		for _, it := range p.items {
			if it.Ob != nil {
				continue
			}
			if strings.HasPrefix(it.Text, "(declare-const ") {
				if env.preDecl == nil {
					env.preDecl = map[string]bool{}
				}
				if env.preDecl[it.Text] {
					continue
				}
				env.preDecl[it.Text] = true
			}
			env.decls = append(env.decls, it.Text)
		}
		env.decls = append(env.decls, fmt.Sprintf("; axiom %s\n(assert %s)", ax.Name, t))
		env.assumptions["axiom:"+ax.Name] = true
	}
}

func walkCalls(e Expr, f func(string)) {
	switch x := e.(type) {
	case *ECall:
		f(x.Fun)
		if x.Recv != nil {
			walkCalls(x.Recv, f)
		}
		for _, a := range x.Args {
			walkCalls(a, f)
		}
	case *EUnary:
		walkCalls(x.X, f)
	case *EBinary:
		walkCalls(x.X, f)
		walkCalls(x.Y, f)
	case *ESel:
		walkCalls(x.X, f)
	case *EIndex:
		walkCalls(x.X, f)
		walkCalls(x.I, f)
	case *ESlice:
		walkCalls(x.X, f)
		if x.Lo != nil {
			walkCalls(x.Lo, f)
		}
		if x.Hi != nil {
			walkCalls(x.Hi, f)
		}
	case *EQuant:
		walkCalls(x.Body, f)
		for _, tr := range x.Triggers {
			for _, t := range tr {
				walkCalls(t, f)
			}
		}
	}
}

func (fx *FnCtx) runAll() {
	p := fx.entryPath()
	if p != nil {
		p.blockingInventory()
		p.cover("pre", "")
		p.runBlock(fx.fn.Blocks[0], nil)
	}
	fx.refinePath()
	for _, head := range fx.loopList {
		q := fx.loopPath(head)
		if q != nil {
			q.cover("loop", fmt.Sprintf("loop%d", fx.loopHeads[head]))
			q.execBlock(head, true)
		}
	}
}

func (fx *FnCtx) basePath() *Path {
	p := &Path{fx: fx, vals: map[ssa.Value]Val{}, emitted: map[string]bool{}, vars: map[string]Val{}}
	p.st = State{epoch: "0", epochNow: "now_0", heaps: map[string]string{}, now: "now_0"}
	p.entry = State{epoch: "0", epochNow: "now_0", heaps: map[string]string{}, now: "now_0"}
	fn := fx.fn
	for _, prm := range fn.Params {
		n := "p_" + sanitize(prm.Name())
		p.declare(n, fx.env.sortOf(prm.Type()))
		val := Val{T: n, Ty: prm.Type()}
		p.vals[prm] = val
		p.vars[prm.Name()] = val
		p.assumeWF(n, prm.Type())
	}
	for _, fv := range fn.FreeVars {
		n := "fv_" + sanitize(fv.Name())
		p.declare(n, fx.env.sortOf(fv.Type()))
		val := Val{T: n, Ty: fv.Type()}
		p.vals[fv] = val
		p.assumeWF(n, fv.Type())
		p.assume(fmt.Sprintf("(and (not (= %s nil)) (= (ftag %s) (- 5)))", n, n))
	}
	p.constGlobalFacts()
	if fx.spec != nil && fx.spec.Attrs["lemmas"] != "" {
		// the function that carries the package's lemmas proves them at the start of each of its scripts
		p.lemmaObligations()
	}
	// distinct free-variable cells
	for i := 0; i < len(fn.FreeVars); i++ {
		for j := i + 1; j < len(fn.FreeVars); j++ {
			p.assume(fmt.Sprintf("(not (= fv_%s fv_%s))", sanitize(fn.FreeVars[i].Name()), sanitize(fn.FreeVars[j].Name())))
		}
	}
	return p
}

func (fx *FnCtx) pkgTypes() *types.Package {
	if fx.fn.Pkg != nil {
		return fx.fn.Pkg.Pkg
	}
	root := fx.fn
	for root.Parent() != nil {
		root = root.Parent()
	}
	if root.Pkg != nil {
		return root.Pkg.Pkg
	}
	return nil
}

func (p *Path) specCtx() *SpecCtx {
	return &SpecCtx{p: p, st: &p.st, old: &p.entry, vars: map[string]Val{}, params: p.vars, pkg: p.fx.pkgTypes(), fn: p.fx.fn}
}

func (p *Path) assumeClause(c *SpecCtx, cl Clause, what string) {
	t, err := c.EvalBool(cl.E)
	if err != nil && strings.HasPrefix(cl.Label, "opt") {
		return // optional clause (mentions spec functions of a package that is not loaded)
	}
	if err != nil {
		p.specError(what, cl, err)
		return
	}
	p.assume(t)
}

func (p *Path) specError(what string, cl Clause, err error) {
	msg := fmt.Sprintf("CONTRACT-STALE %s %s: %v (%s:%d)", p.fx.short, what, err, cl.File, cl.Line)
	dup := false
	for _, e := range p.fx.errors {
		if e == msg {
			dup = true
		}
	}
	if !dup {
		p.fx.errors = append(p.fx.errors, msg)
	}
	p.oblige("contract", sanitize(what), msg, "false")
}

func (fx *FnCtx) entryPath() *Path {
	p := fx.basePath()
	if fx.spec != nil {
		c := p.specCtx()
		c.old = nil
		c.fn = nil // preconditions talk about parameters, not about locals
		c.closureCells = p.freeVarCells()
		for _, r := range fx.spec.allRequires() {
			p.assumeClause(c, r, "requires")
		}
	}
	return p
}

func (p *Path) freeVarCells() map[string]Val {
	if len(p.fx.fn.FreeVars) == 0 {
		return nil
	}
	m := map[string]Val{}
	for _, fv := range p.fx.fn.FreeVars {
		m[fv.Name()] = p.val(fv)
	}
	return m
}

// frameAxiom: on a heap version created at a loop head, locations that existed at entry and are outside the
// function's modifies clause still hold their entry value.
func (p *Path) loopFrame(name, version string) {
	fx := p.fx
	if fx.spec == nil || fx.spec.ModAll {
		return
	}
	if !strings.HasPrefix(name, "Mem_") {
		return
	}
	mod := p.modCond(name, "a")
	entryH := p.heapIn(&p.entry, name)
	p.assume(fmt.Sprintf("(forall ((a Ref)) (! (=> (and (<= (stamp a) now_0) (not %s)) (= (select %s a) (select %s a))) :pattern ((select %s a))))", mod, version, entryH, version))
}

// modCond: SMT condition "address a (of heap `name`) is covered by the function's modifies clause", evaluated at entry.
func (p *Path) modCond(name, a string) string {
	fx := p.fx
	if fx.spec == nil {
		return "false"
	}
	c := p.specCtx()
	c.st = &p.entry
	c.old = nil
	c.fn = nil
	c.closureCells = p.freeVarCells()
	var ds []string
	for i, m := range fx.spec.Modifies {
		locs, err := func() (l []Loc, err error) {
			defer func() {
				if r := recover(); r != nil {
					if se, ok := r.(specErr); ok {
						err = fmt.Errorf("%s", string(se))
						return
					}
					panic(r)
				}
			}()
			return c.locs(m), nil
		}()
		if err != nil {
			p.specError("modifies", Clause{Src: fx.spec.ModSrc[i], File: fx.spec.File, Line: fx.spec.Line}, err)
			continue
		}
		for _, l := range locs {
			if l.Heap == name {
				ds = append(ds, locCond(l, a))
			}
		}
	}
	if len(ds) == 0 {
		return "false"
	}
	return "(or " + strings.Join(ds, " ") + ")"
}

func locCond(l Loc, a string) string {
	switch {
	case l.All:
		return "true"
	case l.Pred != "":
		return strings.ReplaceAll(l.Pred, "%ADDR%", a)
	case l.AllTag != 0:
		return fmt.Sprintf("(= (ftag %s) %d)", a, l.AllTag)
	case l.RowsOf != "":
		return fmt.Sprintf("(exists ((j Int)) (! (and (<= 0 j) (< j %d) (= %s (select %s (idx %s j)))) :pattern ((select %s (idx %s j)))))", l.RowsN, a, l.RowsHeap, l.RowsOf, l.RowsHeap, l.RowsOf)
	case l.MapRow:
		return fmt.Sprintf("(= %s %s)", a, l.Addr)
	case l.Region && l.Inner > 0:
		return fmt.Sprintf("(and (= (ftag %s) (- 1)) (= (ftag (ibase %s)) (- 1)) (= (ibase (ibase %s)) %s) (<= %s (iidx (ibase %s))) (< (iidx (ibase %s)) %s) (<= 0 (iidx %s)) (< (iidx %s) %d))", a, a, a, l.Addr, l.Lo, a, a, l.Hi, a, a, l.Inner)
	case l.Region:
		e := a
		extra := ""
		if l.FieldFn != "" {
			e = "(fbase " + a + ")"
			extra = fmt.Sprintf(" (= (%s %s) %s)", l.FieldFn, e, a)
		}
		return fmt.Sprintf("(and (= (ftag %s) (- 1)) (= (ibase %s) %s) (<= %s (iidx %s)) (< (iidx %s) %s)%s)", e, e, l.Addr, l.Lo, e, e, l.Hi, extra)
	}
	return fmt.Sprintf("(= %s %s)", a, l.Addr)
}

func (fx *FnCtx) loopPath(head *ssa.BasicBlock) *Path {
	p := fx.basePath()
	n := fx.loopHeads[head]
	if fx.spec != nil {
		c := p.specCtx()
		c.old = nil
		c.fn = nil
		c.closureCells = p.freeVarCells()
		for _, r := range fx.spec.allRequires() {
			p.assumeClause(c, r, "requires")
		}
	}
	replayed := p.replayPrefix(head)
	ep := fmt.Sprintf("L%d", n)
	now := "now_" + ep
	prevNow := "now_0"
	// nested loop: a symbolic snapshot of the state at the start of the current iteration of the enclosing loop,
	// so that invariants can say outer(e) and the enclosing loop's step/exit clauses are checked on paths that
	// pass through this loop
	if enc := fx.enclosingLoop(head); enc != nil {
		ne := fx.loopHeads[enc]
		eps := fmt.Sprintf("L%ds%d", ne, n)
		nows := "now_" + eps
		p.declare(nows, "Int")
		p.assume(fmt.Sprintf("(>= %s now_0)", nows))
		p.st = State{epoch: eps, epochNow: nows, heaps: map[string]string{}, now: nows, loopEpoch: true}
		p.outerHead = enc
		p.outerVars = map[string]Val{}
		for _, in := range enc.Instrs {
			phi, ok := in.(*ssa.Phi)
			if !ok {
				break
			}
			nm := p.fx.uniq(fmt.Sprintf("%s_%s", sanitize(phi.Comment+phi.Name()), eps))
			p.declare(nm, fx.env.sortOf(phi.Type()))
			v := Val{T: nm, Ty: phi.Type()}
			p.vals[phi] = v
			p.assumeWF(nm, phi.Type())
			if phi.Comment != "" {
				p.outerVars[phi.Comment] = v
			}
		}
		if els := fx.loopSpec(ne); els != nil {
			c := p.specCtx()
			c.loop = enc
			for _, inv := range els.Invs {
				p.assumeClause(c, inv, fmt.Sprintf("loop %d invariant", ne))
			}
			if els.Decreases != nil {
				if d, err := c.Eval(els.Decreases.E); err == nil {
					p.outerDec0 = d.T
				}
			}
		}
		p.outerState = p.st.clone()
		prevNow = nows
	}
	p.declare(now, "Int")
	p.assume(fmt.Sprintf("(>= %s %s)", now, prevNow))
	p.st = State{epoch: ep, epochNow: now, heaps: map[string]string{}, now: now, loopEpoch: true}
	p.startLoop = head
	p.trace = append(p.trace, -n)
	// loop-carried SSA values
	for _, in := range head.Instrs {
		phi, ok := in.(*ssa.Phi)
		if !ok {
			break
		}
		nm := fmt.Sprintf("%s_%s", sanitize(phi.Comment), ep)
		if phi.Comment == "" {
			nm = fmt.Sprintf("%s_%s", sanitize(phi.Name()), ep)
		}
		nm = p.fx.uniq(nm)
		p.declare(nm, fx.env.sortOf(phi.Type()))
		v := Val{T: nm, Ty: phi.Type()}
		p.vals[phi] = v
		p.assumeWF(nm, phi.Type())
		if p.loopStart == nil {
			p.loopStart = map[string]Val{}
		}
		if phi.Comment != "" {
			p.loopStart[phi.Comment] = v
		}
	}
	// deferred calls registered before the loop (Defer instructions in blocks dominating the head)
	for _, b := range fx.fn.Blocks {
		if replayed || b == head || !b.Dominates(head) {
			continue
		}
		for _, in := range b.Instrs {
			if d, ok := in.(*ssa.Defer); ok {
				rec := deferRec{instr: d}
				for _, a := range d.Call.Args {
					rec.args = append(rec.args, p.val(a))
				}
				rec.fnVal = p.val(d.Call.Value)
				p.defers = append(p.defers, rec)
			}
		}
	}
	p.defers0 = len(p.defers)
	ls := fx.loopSpec(n)
	c := p.specCtx()
	c.loop = head
	// a captured variable that is assigned once, before the loop, and only read afterwards still holds that value
	for _, a := range fx.allocs {
		st := writeOnceStore(a)
		if st == nil || st.Block() == head || !st.Block().Dominates(head) || !a.Block().Dominates(head) {
			continue
		}
		et := a.Type().Underlying().(*types.Pointer).Elem()
		if !isScalar(et) {
			continue
		}
		p.assume(fmt.Sprintf("(= (select %s %s) %s)", p.heapIn(&p.st, fx.env.memHeap(et)), p.val(a).T, p.val(st.Val).T))
	}
	p.loopStartState = p.st.clone()
	if ls != nil {
		for _, inv := range ls.Invs {
			p.assumeClause(c, inv, fmt.Sprintf("loop %d invariant", n))
		}
		if ls.Decreases != nil {
			if d, err := c.Eval(ls.Decreases.E); err == nil {
				p.dec0 = d.T
			} else {
				p.specError("decreases", *ls.Decreases, err)
			}
		}
	}
	return p
}

// replayPrefix: when the blocks dominating a loop head form a straight line from the entry (each ends in a jump to
// the next), their instructions are re-executed from the entry state so that the values they define (loads of
// fields, addresses, allocations, deferred calls) are known exactly at the loop head. Obligations of the prefix are
// not repeated here (they belong to the entry fragment); its heap effects are discarded (the loop head havocs).
func (p *Path) replayPrefix(head *ssa.BasicBlock) bool {
	var chain []*ssa.BasicBlock
	for b := head.Idom(); b != nil; b = b.Idom() {
		chain = append([]*ssa.BasicBlock{b}, chain...)
	}
	if len(chain) == 0 || chain[0] != p.fx.fn.Blocks[0] {
		return false
	}
	for i, b := range chain {
		next := head
		if i+1 < len(chain) {
			next = chain[i+1]
		}
		if _, isHead := p.fx.loopHeads[b]; isHead {
			return false
		}
		if len(b.Succs) != 1 || b.Succs[0] != next {
			return false
		}
		for _, in := range b.Instrs {
			if _, isPhi := in.(*ssa.Phi); isPhi {
				return false
			}
		}
	}
	savedSt := p.st.clone()
	p.quiet = true
	for _, b := range chain {
		for _, in := range b.Instrs {
			switch in.(type) {
			case *ssa.Jump:
			default:
				p.exec(in)
			}
		}
	}
	p.quiet = false
	p.st = savedSt
	return true
}

func (fx *FnCtx) uniq(n string) string {
	if fx.names == nil {
		fx.names = map[string]int{}
	}
	fx.names[n]++
	if fx.names[n] > 1 {
		return fmt.Sprintf("%s_%d", n, fx.names[n])
	}
	return n
}

func (fx *FnCtx) loopSpec(n int) *LoopSpec {
	if fx.spec == nil {
		return nil
	}
	return fx.spec.Loops[n]
}

// arriveAtLoop: an edge into a loop head from pred: prove the invariant (entry or preservation).
func (p *Path) arriveAtLoop(head, pred *ssa.BasicBlock) {
	fx := p.fx
	n := fx.loopHeads[head]
	back := head.Dominates(pred)
	kind := "entry"
	if back {
		kind = "preserve"
		if p.startLoop == head && len(p.defers) != p.defers0 {
			p.unsupported("defer inside a loop body", nil)
		}
	}
	// bind phi values along this edge
	predIdx := -1
	for i, pr := range head.Preds {
		if pr == pred {
			predIdx = i
		}
	}
	q := p
	saved := map[ssa.Value]Val{}
	for _, in := range head.Instrs {
		phi, ok := in.(*ssa.Phi)
		if !ok {
			break
		}
		if old, ok := q.vals[phi]; ok {
			saved[phi] = old
		}
	}
	newVals := map[*ssa.Phi]Val{}
	for _, in := range head.Instrs {
		phi, ok := in.(*ssa.Phi)
		if !ok {
			break
		}
		newVals[phi] = q.val(phi.Edges[predIdx])
	}
	for phi, v := range newVals {
		q.vals[phi] = v
	}
	ls := fx.loopSpec(n)
	c := q.specCtx()
	c.loop = head
	if ls == nil {
		q.oblige("inv", fmt.Sprintf("loop%d.missing", n), "loop has no invariant block in the contract", "false")
	} else {
		for k, inv := range ls.Invs {
			t, err := c.EvalBool(inv.E)
			if err != nil {
				q.specError(fmt.Sprintf("loop %d invariant", n), inv, err)
				continue
			}
			lab := inv.Label
			if lab == "" {
				lab = fmt.Sprint(k + 1)
			}
			q.oblige("inv."+lab, fmt.Sprintf("loop%d.%s", n, kind), inv.Src, t)
		}
		if startVars, startState, ok := p.startOf(head); back && ok {
			// two-state step clauses: x = value at the start of this iteration, next_x = value for the next one
			vars := map[string]Val{}
			for name, v0 := range startVars {
				vars[name] = v0
			}
			for phi, v1 := range newVals {
				if phi.Comment != "" {
					vars["next_"+phi.Comment] = v1
				}
			}
			sc := q.specCtx().with(vars)
			sc.loop = head
			sc.old = &q.entry
			sc.st = startState
			sc.cur = &q.st
			for k, stc := range ls.Steps {
				t, err := sc.EvalBool(stc.E)
				if err != nil {
					q.specError(fmt.Sprintf("loop %d step", n), stc, err)
					continue
				}
				lab := stc.Label
				if lab == "" {
					lab = fmt.Sprint(k + 1)
				}
				q.oblige("step."+lab, fmt.Sprintf("loop%d", n), stc.Src, t)
			}
		}
		dec0 := ""
		if p.startLoop == head {
			dec0 = p.dec0
		} else if p.outerHead == head {
			dec0 = p.outerDec0
		}
		if back && ls.Decreases != nil && dec0 != "" {
			p.dec0, dec0 = dec0, p.dec0
			defer func() { p.dec0 = dec0 }()
			if d, err := c.Eval(ls.Decreases.E); err == nil {
				ob := &Oblig{}
				_ = ob
				q.items = append(q.items, Item{Ob: &Oblig{Name: fx.short + ".decreases@" + fmt.Sprintf("loop%d", n), Fn: fx.short, Kind: "decreases", Clause: ls.Decreases.Src,
					Formula: fmt.Sprintf("(and (>= %s 0) (< %s %s))", p.dec0, d.T, p.dec0), Trace: q.traceStr(), Progress: true}})
			}
		}
	}
	q.finish()
}

// ---------- block execution ----------

func (p *Path) runBlock(b, pred *ssa.BasicBlock) {
	if p.dead {
		return
	}
	if _, isHead := p.fx.loopHeads[b]; isHead {
		p.arriveAtLoop(b, pred)
		return
	}
	// phis
	if pred != nil {
		predIdx := -1
		for i, pr := range b.Preds {
			if pr == pred {
				predIdx = i
			}
		}
		newVals := map[*ssa.Phi]Val{}
		for _, in := range b.Instrs {
			phi, ok := in.(*ssa.Phi)
			if !ok {
				break
			}
			newVals[phi] = p.val(phi.Edges[predIdx])
		}
		for phi, v := range newVals {
			p.vals[phi] = v
		}
	}
	p.execBlock(b, false)
}

func (p *Path) execBlock(b *ssa.BasicBlock, isLoopStart bool) {
	fx := p.fx
	fx.npaths++
	if len(p.trace) > 400 || fx.npaths > fx.maxPaths*50 {
		p.oblige("pathlimit", "", "path enumeration limit exceeded", "false")
		p.finish()
		return
	}
	p.trace = append(p.trace, b.Index)
	for _, in := range b.Instrs {
		if _, isPhi := in.(*ssa.Phi); isPhi {
			continue
		}
		if p.dead {
			return
		}
		switch i := in.(type) {
		case *ssa.If:
			c := p.val(i.Cond)
			q := p.fork()
			p.assume(c.T)
			p.runBlock(b.Succs[0], b)
			q.assume("(not " + c.T + ")")
			q.runBlock(b.Succs[1], b)
			return
		case *ssa.Jump:
			p.runBlock(b.Succs[0], b)
			return
		case *ssa.Return:
			p.doReturn(i)
			return
		case *ssa.Panic:
			p.doPanic(i)
			return
		default:
			p.exec(in)
		}
	}
}

func (p *Path) doPanic(i *ssa.Panic) {
	fx := p.fx
	site := fx.site(i, "panic")
	if fx.spec != nil && fx.spec.MayPanic {
		// explicit panics are part of the function's documented behaviour; check the on-panic clauses
		p.setGhost("panicking", tBool, "true")
		p.unwind(true)
		return
	}
	p.oblige("nopanic", site, "explicit panic is unreachable: "+i.String(), "false")
	p.finish()
}

func (p *Path) doReturn(r *ssa.Return) {
	fx := p.fx
	site := fx.site(r, "return")
	vars := map[string]Val{}
	res := fx.fn.Signature.Results()
	for i, rv := range r.Results {
		v := p.val(rv)
		if len(r.Results) == 1 {
			vars["result"] = v
		}
		vars[fmt.Sprintf("result%d", i)] = v
		if i < res.Len() && res.At(i).Name() != "" && res.At(i).Name() != "_" {
			vars[res.At(i).Name()] = v
			vars["ret_"+res.At(i).Name()] = v
		}
	}
	p.cover("return", site)
	p.checkPost(site, vars, false)
	p.refinePost(site, vars)
	p.checkLoopExit(site, vars)
	p.finish()
}

func (p *Path) checkPost(site string, vars map[string]Val, panicExit bool) {
	fx := p.fx
	if fx.spec == nil {
		return
	}
	c := p.specCtx().with(vars)
	c.fn = nil
	c.atExit = true
	// free variables of a closure are visible in its contract (as the captured variables)
	if len(fx.fn.FreeVars) > 0 {
		c.closureCells = map[string]Val{}
		for _, fv := range fx.fn.FreeVars {
			c.closureCells[fv.Name()] = p.val(fv)
		}
	}
	clauses := fx.spec.allEnsures()
	kind := "post"
	if panicExit {
		clauses = fx.spec.OnPanic
		kind = "onpanic"
	}
	for k, e := range clauses {
		t, err := c.EvalBool(e.E)
		if err != nil {
			p.specError("ensures", e, err)
			continue
		}
		lab := e.Label
		if lab == "" {
			lab = fmt.Sprint(k + 1)
		}
		p.oblige(kind+"."+lab, site, e.Src, t)
		if !panicExit && strings.HasPrefix(e.Label, "trans") {
			// transitivity: for an arbitrary earlier state S' related to the entry state, S' is related to the exit state
			nw := fx.fresh("now")
			p.declare(nw, "Int")
			p.assume(fmt.Sprintf("(and (<= 0 %s) (<= %s now_0))", nw, nw))
			pre := State{epoch: fx.fresh("tpre"), epochNow: nw, now: nw, heaps: map[string]string{}}
			ce := *c
			ce.st = &p.entry
			ce.old = &pre
			ce.atExit = false
			t0, err := ce.EvalBool(e.E)
			if err != nil {
				p.specError("ensures", e, err)
				continue
			}
			p.assume(t0)
			cx := *c
			cx.old = &pre
			t1, err := cx.EvalBool(e.E)
			if err != nil {
				p.specError("ensures", e, err)
				continue
			}
			p.oblige("transitive."+lab, site, "transitive: "+e.Src, t1)
		}
	}
}

// checkLoopExit: `exit` clauses of the loop this fragment started in hold at every return reached from inside it.
func (p *Path) checkLoopExit(site string, rvars map[string]Val) {
	if p.startLoop == nil {
		return
	}
	p.checkLoopExitFor(p.startLoop, site, rvars)
	if p.outerHead != nil {
		p.checkLoopExitFor(p.outerHead, site, rvars)
	}
}

// startOf: the snapshot of loop `head` at the start of its current iteration, if this path has one.
func (p *Path) startOf(head *ssa.BasicBlock) (map[string]Val, *State, bool) {
	if p.startLoop == head {
		return p.loopStart, &p.loopStartState, true
	}
	if p.outerHead == head {
		return p.outerVars, &p.outerState, true
	}
	return nil, nil, false
}

// enclosingLoop: the innermost loop head (other than head) that dominates head and is reachable from it.
func (fx *FnCtx) enclosingLoop(head *ssa.BasicBlock) *ssa.BasicBlock {
	reach := map[*ssa.BasicBlock]bool{}
	var dfs func(b *ssa.BasicBlock)
	dfs = func(b *ssa.BasicBlock) {
		for _, s := range b.Succs {
			if !reach[s] {
				reach[s] = true
				dfs(s)
			}
		}
	}
	dfs(head)
	var best *ssa.BasicBlock
	for _, h := range fx.loopList {
		if h == head || !h.Dominates(head) || !reach[h] {
			continue
		}
		if best == nil || best.Dominates(h) {
			best = h
		}
	}
	return best
}

func (p *Path) checkLoopExitFor(head *ssa.BasicBlock, site string, rvars map[string]Val) {
	n := p.fx.loopHeads[head]
	ls := p.fx.loopSpec(n)
	if ls == nil {
		return
	}
	startVars, startState, ok := p.startOf(head)
	if !ok {
		return
	}
	vars := map[string]Val{}
	for k, v := range rvars {
		vars[k] = v
	}
	for name, v0 := range startVars {
		vars[name] = v0
	}
	c := p.specCtx().with(vars)
	c.loop = head
	c.st = startState
	c.cur = &p.st
	for k, e := range ls.Exits {
		t, err := c.EvalBool(e.E)
		if err != nil {
			p.specError(fmt.Sprintf("loop %d exit", n), e, err)
			continue
		}
		lab := e.Label
		if lab == "" {
			lab = fmt.Sprint(k + 1)
		}
		p.oblige("exit."+lab, fmt.Sprintf("loop%d.%s", n, site), e.Src, t)
	}
}

// ---------- locals by name ----------

func (fx *FnCtx) cellByName(name string) *ssa.Alloc {
	var found *ssa.Alloc
	for _, a := range fx.allocs {
		if a.Comment == name {
			if found != nil {
				found = nil
				break
			}
			found = a
		}
	}
	if found != nil {
		return found
	}
	// anonymous allocations (composite and slice literals) by ordinal in source order: slicelit_3 is the third
	// allocation that go/ssa labels "slicelit"
	if k := strings.LastIndexByte(name, '_'); k > 0 {
		if n, err := strconv.Atoi(name[k+1:]); err == nil && n >= 1 {
			var as []*ssa.Alloc
			for _, a := range fx.allocs {
				if a.Comment == name[:k] {
					as = append(as, a)
				}
			}
			sort.Slice(as, func(i, j int) bool { return as[i].Pos() < as[j].Pos() })
			if n <= len(as) {
				return as[n-1]
			}
		}
	}
	return nil
}

func (p *Path) localCell(name string) (string, types.Type, bool) {
	if a := p.fx.cellByName(name); a != nil {
		v := p.val(a)
		return v.T, a.Type().Underlying().(*types.Pointer).Elem(), true
	}
	// free variable cells of closures
	for _, fv := range p.fx.fn.FreeVars {
		if fv.Name() == name {
			if pt, ok := fv.Type().Underlying().(*types.Pointer); ok {
				return p.val(fv).T, pt.Elem(), true
			}
		}
	}
	return "", nil, false
}

func (p *Path) localByName(name string, c *SpecCtx) (Val, bool) {
	fx := p.fx
	if c.inOld {
		return Val{}, false
	}
	// variable living in a cell
	if a, t, ok := p.localCell(name); ok {
		if at, isArr := t.Underlying().(*types.Array); isArr {
			// a local array (the backing store of a slice literal) is addressed element-wise: view it as the slice
			// over all of it, so that x[i] reads the cell IndexAddr computes
			return Val{T: fmt.Sprintf("(mk_slice %s 0 %d %d)", a, at.Len(), at.Len()), Ty: types.NewSlice(at.Elem())}, true
		}
		return Val{T: p.loadIn(c.st, a, t, false), Ty: t}, true
	}
	// loop-carried variable at the loop head under consideration
	if c.loop != nil {
		for _, in := range c.loop.Instrs {
			phi, ok := in.(*ssa.Phi)
			if !ok {
				break
			}
			if phi.Comment == name {
				return p.val(phi), true
			}
		}
	}
	// a variable merged before the loop (phi in a dominating block): the closest one
	if c.loop != nil {
		var best *ssa.Phi
		for _, b := range fx.fn.Blocks {
			if b == c.loop || !b.Dominates(c.loop) {
				continue
			}
			for _, in := range b.Instrs {
				phi, ok := in.(*ssa.Phi)
				if !ok {
					break
				}
				if phi.Comment == name && (best == nil || best.Block().Dominates(b)) {
					best = phi
				}
			}
		}
		if best != nil {
			return p.val(best), true
		}
	}
	// unique debug reference
	if v := fx.debugValue(name); v != nil {
		return p.val(v), true
	}
	return Val{}, false
}

func (fx *FnCtx) debugValue(name string) ssa.Value {
	if fx.dbg == nil {
		fx.dbg = map[string]ssa.Value{}
		amb := map[string]bool{}
		for _, b := range fx.fn.Blocks {
			for _, in := range b.Instrs {
				d, ok := in.(*ssa.DebugRef)
				if !ok || d.IsAddr {
					continue
				}
				id, ok := d.Expr.(*ast.Ident)
				if !ok {
					continue
				}
				if old, ok := fx.dbg[id.Name]; ok && old != d.X {
					amb[id.Name] = true
				}
				fx.dbg[id.Name] = d.X
			}
		}
		for n := range amb {
			delete(fx.dbg, n)
		}
	}
	return fx.dbg[name]
}

func sortedKeys[V any](m map[string]V) []string {
	var out []string
	for k := range m {
		out = append(out, k)
	}
	sort.Strings(out)
	return out
}

// blockingInventory (progress obligation, DESIGN 2.9): the only operations of this function that can block are the
// ones its contract lists under `attr blocking-ops` (sites: select#k, send#k, recv#k, call(F)#k).
func (p *Path) blockingInventory() {
	fx := p.fx
	if fx.spec == nil {
		return
	}
	decl, ok := fx.spec.Attrs["blocking-ops"]
	if !ok {
		return
	}
	allowed := map[string]bool{}
	for _, s := range strings.Split(decl, ",") {
		allowed[strings.TrimSpace(s)] = true
	}
	var extra []string
	seen := map[string]bool{}
	for _, b := range fx.fn.Blocks {
		for _, in := range b.Instrs {
			site := ""
			switch i := in.(type) {
			case *ssa.Select:
				if i.Blocking {
					site = fx.siteName[in]
				}
			case *ssa.Send:
				site = fx.siteName[in]
			case *ssa.UnOp:
				if i.Op == token.ARROW {
					site = fx.siteName[in]
				}
			case ssa.CallInstruction:
				if _, isGo := in.(*ssa.Go); isGo {
					continue
				}
				cc := i.Common()
				if _, isB := cc.Value.(*ssa.Builtin); isB {
					continue
				}
				spec, _, _, _ := p.lookupSpec(cc)
				// dynamic calls and calls without a contract may block; contracts say so with `attr blocking`
				if spec != nil && spec.Attrs["blocking"] == "no" {
					continue
				}
				if spec == nil || spec.Attrs["blocking"] == "yes" || spec.ModAll || cc.IsInvoke() {
					site = fx.siteName[in]
				}
			}
			if site != "" {
				seen[site] = true
				if !allowed[site] {
					extra = append(extra, site)
				}
			}
		}
	}
	f := "true"
	if len(extra) > 0 {
		f = "false"
	}
	ob := &Oblig{Name: fx.short + ".blocking.inventory", Fn: fx.short, Kind: "blocking.inventory",
		Clause: fmt.Sprintf("blocking operations %v are all listed in blocking-ops {%s}; unlisted: %v", sortedKeys(seen), decl, extra), Formula: f, Progress: true}
	p.items = append(p.items, Item{Ob: ob})
}
