package main

// Behavioural subtyping: a method under contract that carries `attr refines I.M` is checked against the contract of
// the interface method I.M, so that callers who only know the interface contract are right about this receiver type:
//   refine.pre.*    requires(I.M) && guard(I.M)  ==>  requires(method)            (checked once, at entry)
//   refine.frame.*  every location in the method's modifies clause is in I.M's modifies clause
//   refine.post.*   at every return: guard(I.M) at entry ==> ensures(I.M)
// The interface receiver is the method's receiver boxed in the interface type; other parameters and results
// correspond by position.

import (
	"fmt"
	"go/types"
	"strings"
)

type refineInfo struct {
	spec  *FuncSpec
	key   string
	iface types.Type
	sig   *types.Signature
}

func (fx *FnCtx) refines() *refineInfo {
	if fx.spec == nil || fx.spec.Attrs["refines"] == "" {
		return nil
	}
	if fx.refine != nil {
		return fx.refine
	}
	name := fx.spec.Attrs["refines"]
	specs := fx.env.specs
	key := ""
	if pt := fx.pkgTypes(); pt != nil && specs.Funcs["iface:"+pt.Path()+"."+name] != nil {
		key = "iface:" + pt.Path() + "." + name
	} else if specs.Funcs["iface:"+name] != nil {
		key = "iface:" + name
	}
	if key == "" {
		fx.errors = append(fx.errors, fmt.Sprintf("CONTRACT-STALE %s: attr refines %s: no such interface contract", fx.short, name))
		return nil
	}
	j := strings.LastIndex(name, ".")
	tname, mname := name[:j], name[j+1:]
	var it types.Type
	func() {
		defer func() {
			if r := recover(); r != nil {
				if _, ok := r.(specErr); !ok {
					panic(r)
				}
			}
		}()
		c := &SpecCtx{pkg: fx.pkgTypes(), vars: map[string]Val{}}
		it = c.resolveType(tname)
	}()
	if it == nil {
		fx.errors = append(fx.errors, fmt.Sprintf("CONTRACT-STALE %s: attr refines %s: cannot resolve type %s", fx.short, name, tname))
		return nil
	}
	in, ok := it.Underlying().(*types.Interface)
	if !ok {
		fx.errors = append(fx.errors, fmt.Sprintf("CONTRACT-STALE %s: attr refines %s: %s is not an interface", fx.short, name, tname))
		return nil
	}
	var sig *types.Signature
	for i := 0; i < in.NumMethods(); i++ {
		if in.Method(i).Name() == mname {
			sig = in.Method(i).Type().(*types.Signature)
		}
	}
	recv := fx.fn.Signature.Recv()
	if sig == nil || recv == nil || !types.Implements(recv.Type(), in) || fx.fn.Name() != mname {
		fx.errors = append(fx.errors, fmt.Sprintf("CONTRACT-STALE %s: attr refines %s: receiver does not implement it", fx.short, name))
		return nil
	}
	fx.refine = &refineInfo{spec: specs.Funcs[key], key: key, iface: it, sig: sig}
	return fx.refine
}

// refineVars binds the interface contract's parameter names to the method's parameters.
func (p *Path) refineVars(ri *refineInfo) map[string]Val {
	fx := p.fx
	vars := map[string]Val{}
	names := ri.spec.ParamNames
	for i, prm := range fx.fn.Params {
		n := fmt.Sprintf("arg%d", i)
		if i < len(names) {
			n = names[i]
		} else if i > 0 && i-1 < ri.sig.Params().Len() && ri.sig.Params().At(i-1).Name() != "" {
			n = ri.sig.Params().At(i - 1).Name()
		}
		v := p.val(prm)
		if i == 0 {
			v = Val{T: fmt.Sprintf("(%s %s)", fx.env.mkIfaceFn(prm.Type()), v.T), Ty: ri.iface}
		}
		vars[n] = v
		vars[fmt.Sprintf("arg%d", i)] = v
	}
	return vars
}

func (fx *FnCtx) refinePath() {
	ri := fx.refines()
	if ri == nil {
		return
	}
	p := fx.basePath()
	p.trace = append(p.trace, -999)
	vars := p.refineVars(ri)
	c := &SpecCtx{p: p, st: &p.st, old: nil, vars: vars, pkg: fx.pkgTypes()}
	for _, r := range ri.spec.allRequires() {
		p.assumeClause(c, r, "requires of "+ri.key)
	}
	if ri.spec.Guard != nil {
		p.assumeClause(c, *ri.spec.Guard, "guard of "+ri.key)
	}
	p.cover("refine", "")
	cc := p.specCtx()
	cc.old = nil
	cc.fn = nil
	for k, r := range fx.spec.allRequires() {
		t, err := cc.EvalBool(r.E)
		if err != nil {
			p.specError("requires", r, err)
			continue
		}
		lab := r.Label
		if lab == "" {
			lab = fmt.Sprint(k + 1)
		}
		p.oblige("refine.pre."+lab, "", "interface contract "+strings.TrimPrefix(ri.key, "iface:")+" implies: "+r.Src, t)
		p.assume(t)
	}
	// frame inclusion
	if !ri.spec.ModAll {
		var ilocs []Loc
		for i, m := range ri.spec.Modifies {
			ls, err := safeLocs(c, m)
			if err != nil {
				p.specError("modifies of "+ri.key, Clause{Src: ri.spec.ModSrc[i], File: ri.spec.File, Line: ri.spec.Line}, err)
				continue
			}
			ilocs = append(ilocs, ls...)
		}
		icond := func(heap, a string) string {
			var ds []string
			for _, l := range ilocs {
				if l.Heap == heap {
					ds = append(ds, locCond(l, a))
				}
			}
			if len(ds) == 0 {
				return "false"
			}
			return "(or " + strings.Join(ds, " ") + ")"
		}
		if fx.spec.ModAll {
			p.oblige("refine.frame", "all", "method modifies everything, the interface contract does not", "false")
		}
		for i, m := range fx.spec.Modifies {
			ls, err := safeLocs(cc, m)
			if err != nil {
				continue // reported by the function's own frame
			}
			for _, l := range ls {
				var f string
				if l.Addr != "" && !l.Region && !l.MapRow && l.Pred == "" && l.AllTag == 0 && !l.All && l.RowsOf == "" {
					f = icond(l.Heap, l.Addr)
				} else {
					f = fmt.Sprintf("(forall ((a Ref)) (=> %s %s))", locCond(l, "a"), icond(l.Heap, "a"))
				}
				p.oblige("refine.frame", fmt.Sprint(i+1), "modifies "+fx.spec.ModSrc[i]+" is covered by the modifies clause of "+strings.TrimPrefix(ri.key, "iface:"), f)
			}
		}
	}
	p.finish()
}

// refinePost: at a normal return, the interface contract's postconditions (under its guard at entry).
func (p *Path) refinePost(site string, rvars map[string]Val) {
	fx := p.fx
	ri := fx.refines()
	if ri == nil {
		return
	}
	vars := p.refineVars(ri)
	res := ri.sig.Results()
	for k := 0; k < res.Len(); k++ {
		v, ok := rvars[fmt.Sprintf("result%d", k)]
		if !ok {
			continue
		}
		vars[fmt.Sprintf("result%d", k)] = v
		if res.Len() == 1 {
			vars["result"] = v
		}
		if n := res.At(k).Name(); n != "" && n != "_" {
			vars[n] = v
		}
	}
	// the concrete method's own result names, too (the interface contract may have been written with them)
	for n, v := range rvars {
		if _, clash := vars[n]; !clash {
			vars[n] = v
		}
	}
	guard := "true"
	if ri.spec.Guard != nil {
		cg := &SpecCtx{p: p, st: &p.entry, old: nil, vars: vars, pkg: fx.pkgTypes()}
		g, err := cg.EvalBool(ri.spec.Guard.E)
		if err != nil {
			p.specError("guard of "+ri.key, *ri.spec.Guard, err)
			return
		}
		guard = g
	}
	c := &SpecCtx{p: p, st: &p.st, old: &p.entry, vars: vars, pkg: fx.pkgTypes(), atExit: true}
	for k, e := range ri.spec.allEnsures() {
		t, err := c.EvalBool(e.E)
		if err != nil {
			if !strings.HasPrefix(e.Label, "opt") {
				p.specError("ensures of "+ri.key, e, err)
			}
			continue
		}
		lab := e.Label
		if lab == "" {
			lab = fmt.Sprint(k + 1)
		}
		p.oblige("refine.post."+lab, site, "interface contract "+strings.TrimPrefix(ri.key, "iface:")+": "+e.Src, fmt.Sprintf("(=> %s %s)", guard, t))
	}
}
