package main

import (
	"encoding/json"
	"flag"
	"fmt"
	"os"
	"path/filepath"
	"regexp"
	"runtime"
	"sort"
	"strconv"
	"strings"
	"time"

	"golang.org/x/tools/go/ssa"
)

type FnCfg struct {
	Fn      string   `json:"fn"`
	Include []string `json:"include,omitempty"` // regexps on the obligation name after "<fn>."; default all
	Exclude []string `json:"exclude,omitempty"`
}

type PropCfg struct {
	ID          string   `json:"id"`
	Packages    []string `json:"packages"`
	Functions   []FnCfg  `json:"functions"`
	Scans       []string `json:"scans,omitempty"`
	Assumptions []string `json:"assumptions,omitempty"`
	Trusted     []string `json:"trusted_base,omitempty"`
	Bounded     []string `json:"bounded,omitempty"`
	Thorough    []string `json:"thorough_extra,omitempty"`
	Replay      string   `json:"replay,omitempty"`
	Lean        []LeanCfg `json:"lean,omitempty"`
	// BatteryQuick: run the replay harness's battery in the quick tier too. Used where a part of the property lives in
	// code outside the verified subset (reflection): a bounded stand-in, listed under `bounded`, never counted as proved.
	BatteryQuick bool `json:"battery_quick,omitempty"`
}

func main() {
	if len(os.Args) < 2 {
		fmt.Fprintln(os.Stderr, "usage: govc check|fn|loops|replay ...")
		os.Exit(2)
	}
	switch os.Args[1] {
	case "check":
		os.Exit(cmdCheck(os.Args[2:]))
	case "fn":
		os.Exit(cmdFn(os.Args[2:]))
	case "loops":
		os.Exit(cmdLoops(os.Args[2:]))
	case "replay":
		os.Exit(cmdReplay(os.Args[2:]))
	case "selftest":
		os.Exit(cmdSelftest(os.Args[2:]))
	}
	fmt.Fprintln(os.Stderr, "unknown command", os.Args[1])
	os.Exit(2)
}

func newVerifier(repo, verif, tier string, timeout int) *Verifier {
	seed, _ := strconv.Atoi(os.Getenv("VERIF_SEED"))
	return &Verifier{repo: repo, verif: verif, tier: tier, timeout: timeout, seed: seed, jobs: runtime.NumCPU(), wsCache: map[string][]string{}, wsBusy: map[string]bool{}}
}

func (v *Verifier) findFn(short string) (*ssa.Function, string) {
	var keys []string
	for k := range v.funcs {
		if shortKey(k) == short && strings.HasPrefix(k, repoModule) {
			keys = append(keys, k)
		}
	}
	if len(keys) == 0 {
		for k := range v.funcs {
			if shortKey(k) == short || k == short {
				keys = append(keys, k)
			}
		}
	}
	if len(keys) == 0 {
		return nil, ""
	}
	sort.Strings(keys)
	return v.funcs[keys[0]], keys[0]
}

func cmdLoops(args []string) int {
	fs := flag.NewFlagSet("loops", flag.ExitOnError)
	repo := fs.String("repo", "/repo", "")
	verif := fs.String("verif", "/verif", "")
	pk := fs.String("pkg", "./...", "")
	f := fs.String("f", "", "function (short key)")
	fs.Parse(args)
	v := newVerifier(*repo, *verif, "quick", 10)
	if err := v.load(strings.Split(*pk, ",")); err != nil {
		fmt.Fprintln(os.Stderr, err)
	}
	fn, key := v.findFn(*f)
	if fn == nil {
		fmt.Fprintln(os.Stderr, "no such function")
		return 2
	}
	fx := v.newFnCtx(fn, v.specs.Funcs[key])
	fmt.Println(key)
	for _, h := range fx.loopList {
		fmt.Printf("  loop %d: block %d (%s)", fx.loopHeads[h], h.Index, h.Comment)
		for _, in := range h.Instrs {
			if phi, ok := in.(*ssa.Phi); ok {
				fmt.Printf(" %s:%s", phi.Comment, phi.Type())
			}
		}
		fmt.Println()
	}
	var sites []string
	for in, s := range fx.siteName {
		sites = append(sites, fmt.Sprintf("  %-28s %s  [%s]", s, in.String(), v.prog.Fset.Position(in.Pos())))
	}
	sort.Strings(sites)
	for _, s := range sites {
		fmt.Println(s)
	}
	return 0
}

func cmdFn(args []string) int {
	fs := flag.NewFlagSet("fn", flag.ExitOnError)
	repo := fs.String("repo", "/repo", "")
	verif := fs.String("verif", "/verif", "")
	pk := fs.String("pkg", "./...", "")
	f := fs.String("f", "", "functions (short keys, comma separated)")
	keep := fs.String("keep", "", "directory to keep SMT files")
	timeout := fs.Int("timeout", 10, "")
	verbose := fs.Bool("v", false, "")
	fs.Parse(args)
	v := newVerifier(*repo, *verif, "quick", *timeout)
	v.keep = *keep
	if *keep != "" {
		os.MkdirAll(*keep, 0755)
	}
	if err := v.load(strings.Split(*pk, ",")); err != nil {
		fmt.Fprintln(os.Stderr, err)
		return 2
	}
	rc := 0
	for _, name := range strings.Split(*f, ",") {
		fn, key := v.findFn(name)
		if fn == nil {
			fmt.Fprintln(os.Stderr, "no such function", name)
			return 2
		}
		t0 := time.Now()
		fx := v.newFnCtx(fn, v.specs.Funcs[key])
		fx.generate()
		results := map[string]*ObResult{}
		v.solveFn(fx, func(string) bool { return true }, results)
		names := sortedKeys(results)
		nfail := 0
		for _, n := range names {
			r := results[n]
			if r.Status != "discharged" {
				nfail++
				rc = 1
			}
			if *verbose || r.Status != "discharged" {
				fmt.Printf("%-10s %-60s x%d %v %.0fms\n", r.Status, r.Name, r.Instances, r.Solvers, r.MaxMs)
				if r.Status != "discharged" && r.Fail != nil {
					fmt.Printf("           clause: %s\n           trace: %s answers: %v\n", r.Clause, r.Fail.Trace, r.Fail.Answers)
					if r.Fail.SMTFile != "" {
						fmt.Printf("           smt: %s\n", r.Fail.SMTFile)
					}
				} else if r.Status != "discharged" {
					fmt.Printf("           clause: %s\n", r.Clause)
				}
			}
		}
		for _, e := range fx.errors {
			fmt.Println("  ", e)
		}
		fmt.Printf("%s: %d obligations, %d not discharged, %d scripts, %.1fs\n", key, len(names), nfail, len(fx.scripts), time.Since(t0).Seconds())
	}
	return rc
}

// ---------- check ----------

func loadProps(verif string) (map[string]*PropCfg, error) {
	b, err := os.ReadFile(filepath.Join(verif, "config", "props.json"))
	if err != nil {
		return nil, err
	}
	var list []*PropCfg
	if err := json.Unmarshal(b, &list); err != nil {
		return nil, err
	}
	m := map[string]*PropCfg{}
	for _, p := range list {
		m[p.ID] = p
	}
	return m, nil
}

func mkFilter(fn string, c FnCfg) func(string) bool {
	var inc, exc []*regexp.Regexp
	for _, s := range c.Include {
		inc = append(inc, regexp.MustCompile(s))
	}
	for _, s := range c.Exclude {
		exc = append(exc, regexp.MustCompile(s))
	}
	return func(name string) bool {
		rest := strings.TrimPrefix(name, fn+".")
		for _, r := range exc {
			if r.MatchString(rest) {
				return false
			}
		}
		if len(inc) == 0 {
			return true
		}
		// covers are always checked
		if strings.HasPrefix(rest, "cover.") {
			return true
		}
		for _, r := range inc {
			if r.MatchString(rest) {
				return true
			}
		}
		return false
	}
}

type Evidence struct {
	PropertyID  string         `json:"property_id"`
	Tier        string         `json:"tier"`
	Seed        int            `json:"seed"`
	Level       string         `json:"level"`
	Coverage    map[string]any `json:"coverage"`
	Assumptions []string       `json:"assumptions"`
	WallS       float64        `json:"wall_s"`
	Violations  int            `json:"violations"`
}

func cmdCheck(args []string) int {
	fs := flag.NewFlagSet("check", flag.ExitOnError)
	repo := fs.String("repo", "/repo", "")
	verif := fs.String("verif", "/verif", "")
	prop := fs.String("p", "", "property id")
	tier := fs.String("tier", "", "quick|thorough")
	keep := fs.String("keep", "", "")
	evOut := fs.String("evidence", "", "evidence file (default <verif>/evidence/<id>.json)")
	replayDir := fs.String("replays", "", "directory for replay files (default <verif>/replays)")
	fs.Parse(args)
	if *tier == "" {
		*tier = os.Getenv("VERIF_TIER")
	}
	if *tier == "" {
		*tier = "quick"
	}
	t0 := time.Now()
	props, err := loadProps(*verif)
	if err != nil {
		fmt.Fprintln(os.Stderr, "config:", err)
		return 2
	}
	cfg := props[*prop]
	if cfg == nil {
		fmt.Fprintln(os.Stderr, "unknown property", *prop)
		return 2
	}
	timeout := 10
	if *tier == "thorough" {
		timeout = 60
	}
	v := newVerifier(*repo, *verif, *tier, timeout)
	v.keep = *keep
	if *keep != "" {
		os.MkdirAll(*keep, 0755)
	}
	results := map[string]*ObResult{}
	var fnsUnder []string
	var stale []string
	assumptions := map[string]bool{}
	loadErr := v.load(cfg.Packages)
	if loadErr != nil {
		results["load"] = &ObResult{Name: "load", Kind: "load", Status: "failed", Clause: loadErr.Error(), Fail: &Failure{Formula: loadErr.Error(), Answers: map[string]string{}}}
	} else {
		for _, fc := range cfg.Functions {
			fn, key := v.findFn(fc.Fn)
			if fn == nil {
				results[fc.Fn+".missing"] = &ObResult{Name: fc.Fn + ".missing", Fn: fc.Fn, Kind: "contract", Status: "failed", Clause: "function under contract no longer exists", Fail: &Failure{Answers: map[string]string{}}}
				continue
			}
			spec := v.specs.Funcs[key]
			if spec == nil {
				results[fc.Fn+".nocontract"] = &ObResult{Name: fc.Fn + ".nocontract", Fn: fc.Fn, Kind: "contract", Status: "failed", Clause: "no contract found for function", Fail: &Failure{Answers: map[string]string{}}}
				continue
			}
			fnsUnder = append(fnsUnder, fc.Fn)
			fx := v.newFnCtx(fn, spec)
			if msg := safeGenerate(fx); msg != "" {
				// the function uses a construct outside the verifier's subset: it can no longer be verified, which is a
				// failed (named) obligation, not a crash of the check
				n := fx.short + ".unsupported@engine"
				results[n] = &ObResult{Name: n, Fn: fx.short, Kind: "unsupported", Status: "failed", Clause: "function is outside the verified subset: " + msg, Fail: &Failure{Answers: map[string]string{}}}
				continue
			}
			stale = append(stale, fx.errors...)
			v.solveFn(fx, mkFilter(fx.short, fc), results)
			for a := range fx.env.assumptions {
				assumptions[a] = true
			}
		}
		for _, sc := range cfg.Scans {
			v.runScan(sc, results)
		}
		for _, lc := range cfg.Lean {
			lr := v.runLean(*verif, *prop, lc)
			results[lr.Name] = lr
			assumptions["lemma "+lc.File+" is machine-checked by Lean 4 over definitions generated from the contract file (the Lean kernel is trusted)"] = true
		}
	}
	for _, s := range stale {
		fmt.Fprintln(os.Stderr, s)
	}
	// summarise
	names := sortedKeys(results)
	nOb, nDis, nProg, nCover, nInst := 0, 0, 0, 0, 0
	var failed []*ObResult
	bySolver := map[string]int{}
	var samples []any
	for _, n := range names {
		r := results[n]
		nInst += r.Instances
		if r.Cover {
			nCover++
			if r.Status != "discharged" {
				failed = append(failed, r)
			}
			continue
		}
		nOb++
		if r.Progress {
			nProg++
		}
		if r.Status == "discharged" {
			nDis++
			for _, s := range r.Solvers {
				bySolver[s]++
			}
			if len(samples) < 6 && (len(samples) == 0 || r.Kind != "bounds") {
				samples = append(samples, map[string]any{"obligation": r.Name, "clause": r.Clause, "instances": r.Instances, "solvers": r.Solvers, "max_ms": r.MaxMs})
			}
		} else {
			failed = append(failed, r)
		}
	}
	// known findings
	kf := loadKnown(*verif)
	violations := 0
	var lines []string
	for _, r := range failed {
		if k := kf.match(*prop, r.Name); k != nil {
			lines = append(lines, fmt.Sprintf("KNOWN-FINDING: property=%s %s %s", *prop, r.Name, k.Witness))
			continue
		}
		violations++
		rd := *replayDir
		if rd == "" {
			rd = filepath.Join(*verif, "replays")
		}
		path := writeReplay(*verif, *repo, rd, *prop, cfg, r, v)
		suffix := ""
		if !replayReproduced(path) {
			suffix = " no-failing-input-found"
		}
		lines = append(lines, fmt.Sprintf("VIOLATION property=%s replay=%s%s", *prop, path, suffix))
		what := "FAILED"
		if r.Cover {
			what = "VACUOUS"
		}
		fmt.Fprintf(os.Stderr, "%s %s: %s\n", what, r.Name, r.Clause)
	}
	// thorough: the witnesses of the fixed findings are replayed against the real code as canaries (a harness run
	// with the old obligation name and no model searches its whole input neighbourhood); a reproduction means the
	// defect is back, whatever the contracts say
	canaries := []any{}
	if *tier == "thorough" || cfg.BatteryQuick {
		h := filepath.Join(*verif, "config", "replay", *prop+"_test.go")
		if _, err := os.Stat(h); err == nil {
			// the harness's whole battery once (a bounded test of the real code against the harness's oracle; it is
			// listed under `bounded` and never counted as proved)
			{
				rf := ReplayFile{Property: *prop, Obligation: "battery", Kind: "battery", Status: "battery", Model: map[string]string{}, Harness: h}
				out, ok := runHarness(*verif, *repo, *prop, h, &rf)
				canaries = append(canaries, map[string]any{"obligation": "battery (bounded test of the real code by " + filepath.Base(h) + ")", "reproduced": ok})
				cfg.Bounded = append(cfg.Bounded, "replay battery "+filepath.Base(h)+" run on the real code (thorough tier; also quick where the property has a part outside the verified subset): a finite set of inputs/histories against an oracle written from the property statement (bounded, not counted as proved)")
				if ok {
					rf.TestOutput, rf.Reproduced = trunc(out, 8000), true
					rd := *replayDir
					if rd == "" {
						rd = filepath.Join(*verif, "replays")
					}
					os.MkdirAll(filepath.Join(rd, *prop), 0755)
					path := filepath.Join(rd, *prop, "battery.json")
					b, _ := json.MarshalIndent(rf, "", " ")
					os.WriteFile(path, b, 0644)
					violations++
					lines = append(lines, fmt.Sprintf("VIOLATION property=%s replay=%s", *prop, path))
					fmt.Fprintf(os.Stderr, "FAILED battery: the replay harness finds a violation on the real code\n")
				}
			}
			for _, k := range kf.Findings {
				if k.Property != *prop || k.Status != "fixed" || *tier != "thorough" {
					continue
				}
				rf := ReplayFile{Property: *prop, Obligation: k.Obligation, Kind: "canary", Status: "canary", Model: map[string]string{}, Harness: h}
				out, ok := runHarness(*verif, *repo, *prop, h, &rf)
				canaries = append(canaries, map[string]any{"obligation": k.Obligation, "fixed_by": k.Commit, "reproduced": ok})
				if ok {
					rf.TestOutput, rf.Reproduced = trunc(out, 8000), true
					rf.Note = "canary: the witness of a fixed finding reproduces on the real code again"
					rd := *replayDir
					if rd == "" {
						rd = filepath.Join(*verif, "replays")
					}
					os.MkdirAll(filepath.Join(rd, *prop), 0755)
					path := filepath.Join(rd, *prop, "canary_"+sanitize(k.Obligation)+".json")
					b, _ := json.MarshalIndent(rf, "", " ")
					os.WriteFile(path, b, 0644)
					violations++
					lines = append(lines, fmt.Sprintf("VIOLATION property=%s replay=%s", *prop, path))
					fmt.Fprintf(os.Stderr, "FAILED canary %s: %s\n", k.Obligation, k.Witness)
				}
			}
		}
	}
	for k := range assumptions {
		cfg.Assumptions = append(cfg.Assumptions, k)
	}
	sort.Strings(cfg.Assumptions)
	var tb []string
	tb = append(tb, "go/packages + go/ssa (x/tools v0.29.0) lowering of /repo", "govc VC generator (/verif/engine)", "z3 4.8.12 / z3 5.1.0 / cvc5 1.0.3 (an unsat answer is believed)")
	tb = append(tb, cfg.Trusted...)
	for a := range assumptions {
		if strings.HasPrefix(a, "assumed-contract:") {
			tb = append(tb, a)
		}
	}
	sort.Strings(tb[3:])
	ev := Evidence{PropertyID: *prop, Tier: *tier, Seed: v.seed, Level: "proof", Assumptions: cfg.Assumptions, WallS: time.Since(t0).Seconds(), Violations: violations}
	if ev.Assumptions == nil {
		ev.Assumptions = []string{}
	}
	ev.Coverage = map[string]any{
		"obligations":              nOb,
		"discharged":               nDis,
		"vc_instances":             nInst,
		"progress_obligations":     nProg,
		"vacuity_covers":           nCover,
		"checker_cmd":              fmt.Sprintf("/verif/bin/govc check -p %s -tier %s", *prop, *tier),
		"trusted_base":             tb,
		"functions_under_contract": fnsUnder,
		"by_solver":                bySolver,
		"solver_time":              v.solverStats,
		"load_s":                   v.loadS,
		"samples":                  samples,
		"bounded":                  cfg.Bounded,
		"failed":                   failedNames(failed),
		"canaries":                 canaries,
	}
	out := *evOut
	if out == "" {
		out = filepath.Join(*verif, "evidence", *prop+".json")
	}
	os.MkdirAll(filepath.Dir(out), 0755)
	b, _ := json.MarshalIndent(ev, "", " ")
	os.WriteFile(out, b, 0644)
	for _, l := range lines {
		fmt.Println(l)
	}
	fmt.Printf("%s %s: %d obligations (%d VC instances, %d covers), %d discharged, %d violations, %.1fs\n", *prop, *tier, nOb, nInst, nCover, nDis, violations, ev.WallS)
	if violations > 0 {
		return 1
	}
	return 0
}

func failedNames(f []*ObResult) []string {
	out := []string{}
	for _, r := range f {
		out = append(out, r.Name)
	}
	return out
}

// ---------- known findings ----------

type Known struct {
	Property   string `json:"property"`
	Obligation string `json:"obligation"`
	Witness    string `json:"witness"`
	Status     string `json:"status"`
	Commit     string `json:"commit,omitempty"`
}

type KnownFile struct {
	Findings []Known `json:"findings"`
}

func loadKnown(verif string) *KnownFile {
	var kf KnownFile
	b, err := os.ReadFile(filepath.Join(verif, "known_findings.json"))
	if err == nil {
		json.Unmarshal(b, &kf)
	}
	return &kf
}

func (k *KnownFile) match(prop, ob string) *Known {
	for i := range k.Findings {
		f := &k.Findings[i]
		if f.Status == "open" && f.Property == prop && f.Obligation == ob {
			return f
		}
	}
	return nil
}

// safeGenerate runs VC generation and turns an engine panic (unsupported type or instruction) into a message.
func safeGenerate(fx *FnCtx) (msg string) {
	defer func() {
		if r := recover(); r != nil {
			msg = fmt.Sprint(r)
			if len(msg) > 300 {
				msg = msg[:300]
			}
		}
	}()
	fx.generate()
	return ""
}
