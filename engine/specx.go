package main

// Evaluation of contract expressions to SMT terms in a given program state.

import (
	"fmt"
	"go/constant"
	"go/types"
	"sort"
	"strings"

	"golang.org/x/tools/go/ssa"
)

type SpecCtx struct {
	p    *Path
	st   *State
	old  *State
	vars map[string]Val // bound names: quantifier variables, results, callee parameters at call sites
	params map[string]Val // parameters of the function under verification (shadowed by its locals outside old())
	pkg  *types.Package // resolves type names and globals
	fn   *ssa.Function  // resolves locals (may be nil)
	loop *ssa.BasicBlock
	depth int
	inOld bool
	atExit bool
	closureCells map[string]Val
	cur *State // for now(e): the state at the point of the check (step/exit clauses evaluate in the loop-start state)
}

type specErr string

func (c *SpecCtx) fail(f string, a ...any) {
	panic(specErr(fmt.Sprintf(f, a...)))
}

func (c *SpecCtx) with(vars map[string]Val) *SpecCtx {
	d := *c
	d.vars = map[string]Val{}
	for k, v := range c.vars {
		d.vars[k] = v
	}
	for k, v := range vars {
		d.vars[k] = v
	}
	return &d
}

var (
	tInt  = types.Typ[types.Int]
	tBool = types.Typ[types.Bool]
	tStr  = types.Typ[types.String]
	tByte = types.Typ[types.Uint8]
)

// Eval evaluates e; errors become a failed "spec" obligation at the caller.
func (c *SpecCtx) Eval(e Expr) (v Val, err error) {
	defer func() {
		if r := recover(); r != nil {
			if se, ok := r.(specErr); ok {
				err = fmt.Errorf("%s", string(se))
				return
			}
			panic(r)
		}
	}()
	return c.eval(e), nil
}

func (c *SpecCtx) EvalBool(e Expr) (string, error) {
	v, err := c.Eval(e)
	if err != nil {
		return "", err
	}
	if c.p.fx.env.sortOf(v.Ty) != "Bool" {
		return "", fmt.Errorf("expression %s is not boolean", e)
	}
	return v.T, nil
}

func (c *SpecCtx) env() *Env { return c.p.fx.env }

func (c *SpecCtx) resolveType(s string) types.Type {
	s = strings.TrimSpace(s)
	switch {
	case strings.HasPrefix(s, "*"):
		return types.NewPointer(c.resolveType(s[1:]))
	case strings.HasPrefix(s, "[]"):
		return types.NewSlice(c.resolveType(s[2:]))
	case strings.HasPrefix(s, "map["):
		k := matchBracket(s, 3)
		return types.NewMap(c.resolveType(s[4:k]), c.resolveType(s[k+1:]))
	case strings.HasPrefix(s, "chan"):
		return types.NewChan(types.SendRecv, c.resolveType(strings.TrimSpace(s[4:])))
	}
	switch s {
	case "int":
		return tInt
	case "bool":
		return tBool
	case "string":
		return tStr
	case "byte", "uint8":
		return tByte
	case "any":
		return types.NewInterfaceType(nil, nil)
	case "error":
		return types.Universe.Lookup("error").Type()
	case "ref":
		return types.Typ[types.UnsafePointer]
	case "struct{}":
		return types.NewStruct(nil, nil)
	}
	if o := types.Universe.Lookup(s); o != nil {
		if tn, ok := o.(*types.TypeName); ok {
			return tn.Type()
		}
	}
	if pk, name, ok := strings.Cut(s, "."); ok {
		// imported package by name
		for _, p := range c.env().prog.AllPackages() {
			if p.Pkg.Name() == pk || p.Pkg.Path() == pk {
				if o := p.Pkg.Scope().Lookup(name); o != nil {
					if tn, ok := o.(*types.TypeName); ok {
						return tn.Type()
					}
				}
			}
		}
		c.fail("unknown type %s", s)
	}
	if c.pkg != nil {
		if o := c.pkg.Scope().Lookup(s); o != nil {
			if tn, ok := o.(*types.TypeName); ok {
				return tn.Type()
			}
		}
	}
	c.fail("unknown type %s", s)
	return nil
}

func matchBracket(s string, open int) int {
	depth := 0
	for i := open; i < len(s); i++ {
		switch s[i] {
		case '[':
			depth++
		case ']':
			depth--
			if depth == 0 {
				return i
			}
		}
	}
	return -1
}

func (c *SpecCtx) sort(t types.Type) string { return c.env().sortOf(t) }

func isUntyped(t types.Type) bool {
	b, ok := t.(*types.Basic)
	return ok && b.Info()&types.IsUntyped != 0
}

func (c *SpecCtx) eval(e Expr) Val {
	env := c.env()
	switch x := e.(type) {
	case *EInt:
		return Val{T: smtInt(x.V.String()), Ty: types.Typ[types.UntypedInt]}
	case *EBool:
		return Val{T: fmt.Sprint(x.V), Ty: tBool}
	case *EStr:
		return Val{T: env.strLit(x.V), Ty: tStr}
	case *ENil:
		return Val{T: "nil", Ty: types.Typ[types.UntypedNil]}
	case *EIdent:
		return c.ident(x.Name)
	case *EUnary:
		switch x.Op {
		case "!":
			v := c.eval(x.X)
			return Val{T: "(not " + v.T + ")", Ty: tBool}
		case "-":
			v := c.eval(x.X)
			return Val{T: "(- " + v.T + ")", Ty: v.Ty}
		case "*":
			v := c.eval(x.X)
			pt, ok := v.Ty.Underlying().(*types.Pointer)
			if !ok {
				c.fail("deref of non-pointer %s", x.X)
			}
			return Val{T: c.p.loadIn(c.st, v.T, pt.Elem(), false), Ty: pt.Elem()}
		case "&":
			a, t := c.addr(x.X)
			return Val{T: a, Ty: types.NewPointer(t)}
		}
	case *EBinary:
		return c.binary(x)
	case *ESel:
		if o := c.pkgObject(x); o != nil {
			return c.object(o)
		}
		// struct value field, or pointer field (memory)
		if a, t, ok := c.tryAddr(e); ok {
			return Val{T: c.p.loadIn(c.st, a, t, false), Ty: t}
		}
		v := c.eval(x.X)
		st, ok := v.Ty.Underlying().(*types.Struct)
		if !ok {
			c.fail("field %s of non-struct %s (%s)", x.Name, x.X, v.Ty)
		}
		for i := 0; i < st.NumFields(); i++ {
			if st.Field(i).Name() == x.Name {
				return Val{T: env.structFieldVal(v.Ty, v.T, i), Ty: st.Field(i).Type()}
			}
		}
		c.fail("no field %s in %s", x.Name, v.Ty)
	case *EIndex:
		if a, t, ok := c.tryAddr(e); ok {
			return Val{T: c.p.loadIn(c.st, a, t, false), Ty: t}
		}
		v := c.eval(x.X)
		i := c.eval(x.I)
		switch u := v.Ty.Underlying().(type) {
		case *types.Basic:
			return Val{T: fmt.Sprintf("(sat %s %s)", v.T, i.T), Ty: tByte}
		case *types.Map:
			has, val := env.mapHeaps(u)
			hh, hv := c.p.heapIn(c.st, has), c.p.heapIn(c.st, val)
			return Val{T: fmt.Sprintf("(ite (select (select %s %s) %s) (select (select %s %s) %s) %s)", hh, v.T, i.T, hv, v.T, i.T, env.zeroOf(u.Elem())), Ty: u.Elem()}
		case *types.Array:
			return Val{T: fmt.Sprintf("(select %s %s)", v.T, i.T), Ty: u.Elem()}
		}
		c.fail("cannot index %s of type %s", x.X, v.Ty)
	case *ESlice:
		v := c.eval(x.X)
		lo := "0"
		if x.Lo != nil {
			lo = c.eval(x.Lo).T
		}
		switch v.Ty.Underlying().(type) {
		case *types.Basic:
			hi := "(slen " + v.T + ")"
			if x.Hi != nil {
				hi = c.eval(x.Hi).T
			}
			return Val{T: fmt.Sprintf("(ssub %s %s %s)", v.T, lo, hi), Ty: v.Ty}
		case *types.Slice:
			hi := "(sl.len " + v.T + ")"
			if x.Hi != nil {
				hi = c.eval(x.Hi).T
			}
			return Val{T: fmt.Sprintf("(mk_slice (sl.arr %s) (+ (sl.off %s) %s) (- %s %s) (- (sl.cap %s) %s))", v.T, v.T, lo, hi, lo, v.T, lo), Ty: v.Ty}
		}
		c.fail("cannot slice %s", x.X)
	case *ECall:
		return c.call(x)
	case *EQuant:
		return c.quant(x)
	}
	c.fail("cannot evaluate %s", e)
	return Val{}
}

func (c *SpecCtx) ident(name string) Val {
	if v, ok := c.vars[name]; ok {
		return v
	}
	// local variable of the function under verification
	if c.fn != nil && c.p != nil {
		if v, ok := c.p.localByName(name, c); ok {
			return v
		}
	}
	if v, ok := c.params[name]; ok {
		return v
	}
	if cell, ok := c.closureCells[name]; ok {
		if pt, ok := cell.Ty.Underlying().(*types.Pointer); ok {
			return Val{T: c.p.loadIn(c.st, cell.T, pt.Elem(), false), Ty: pt.Elem()}
		}
		return cell
	}
	// package-level object
	if c.pkg != nil {
		if o := c.pkg.Scope().Lookup(name); o != nil {
			return c.object(o)
		}
	}
	// ghost global
	for _, g := range c.env().specs.GVars {
		if g.Name == name {
			t := c.resolveType(g.Type)
			a := c.ghostVarAddr(name)
			return Val{T: c.p.loadIn(c.st, a, t, false), Ty: t}
		}
	}
	c.fail("unknown identifier %s", name)
	return Val{}
}

// pkgObject: pkg.Name where pkg is an imported package name that is not shadowed by a variable.
func (c *SpecCtx) pkgObject(x *ESel) types.Object {
	id, ok := x.X.(*EIdent)
	if !ok {
		return nil
	}
	if _, bound := c.vars[id.Name]; bound {
		return nil
	}
	if _, bound := c.params[id.Name]; bound {
		return nil
	}
	if _, bound := c.closureCells[id.Name]; bound {
		return nil
	}
	for _, sp := range c.env().prog.AllPackages() {
		if sp.Pkg.Name() == id.Name {
			if o := sp.Pkg.Scope().Lookup(x.Name); o != nil {
				switch o.(type) {
				case *types.Var, *types.Const:
					return o
				}
			}
		}
	}
	return nil
}

func (c *SpecCtx) ghostVarAddr(name string) string {
	t := "ghost_" + sanitize(name)
	env := c.env()
	env.decl("ghostvar:"+t, fmt.Sprintf("(declare-const %s Ref)\n(assert (and (not (= %s nil)) (= (stamp %s) 0) (= (ftag %s) (- 4)) (= (iidx %s) %d)))", t, t, t, t, t, len(env.declared)))
	return t
}

func (c *SpecCtx) object(o types.Object) Val {
	env := c.env()
	switch ob := o.(type) {
	case *types.Const:
		return constToVal(env, ob.Val(), ob.Type())
	case *types.Var:
		sp := env.pkgs[ob.Pkg().Path()]
		if sp == nil {
			c.fail("package of %s not loaded", ob.Name())
		}
		g, ok := sp.Members[ob.Name()].(*ssa.Global)
		if !ok {
			c.fail("%s is not a global", ob.Name())
		}
		a := c.p.val(g)
		return Val{T: c.p.loadIn(c.st, a.T, ob.Type(), false), Ty: ob.Type()}
	}
	c.fail("cannot use %s in a contract", o.Name())
	return Val{}
}

func constToVal(env *Env, v constant.Value, t types.Type) Val {
	switch v.Kind() {
	case constant.Bool:
		return Val{T: fmt.Sprint(constant.BoolVal(v)), Ty: t}
	case constant.Int:
		return Val{T: smtInt(v.ExactString()), Ty: t}
	case constant.String:
		return Val{T: env.strLit(constant.StringVal(v)), Ty: t}
	}
	panic(specErr("unsupported constant kind"))
}

// tryAddr: e denotes a memory location -> (address, type)
func (c *SpecCtx) tryAddr(e Expr) (a string, t types.Type, ok bool) {
	defer func() {
		if r := recover(); r != nil {
			if _, isSpec := r.(specErr); isSpec {
				ok = false
				return
			}
			panic(r)
		}
	}()
	a, t = c.addrOpt(e)
	return a, t, a != ""
}

func (c *SpecCtx) addr(e Expr) (string, types.Type) {
	a, t := c.addrOpt(e)
	if a == "" {
		c.fail("%s is not a memory location", e)
	}
	return a, t
}

func (c *SpecCtx) addrOpt(e Expr) (string, types.Type) {
	env := c.env()
	switch x := e.(type) {
	case *EUnary:
		if x.Op == "*" {
			v := c.eval(x.X)
			if pt, ok := v.Ty.Underlying().(*types.Pointer); ok {
				return v.T, pt.Elem()
			}
		}
	case *EIdent:
		if _, bound := c.vars[x.Name]; bound {
			return "", nil
		}
		if cell, ok := c.closureCells[x.Name]; ok {
			if pt, ok := cell.Ty.Underlying().(*types.Pointer); ok {
				return cell.T, pt.Elem()
			}
		}
		if c.fn != nil && !c.inOld {
			if a, t, ok := c.p.localCell(x.Name); ok {
				return a, t
			}
		}
		if c.pkg != nil {
			if o, ok := c.pkg.Scope().Lookup(x.Name).(*types.Var); ok {
				if sp := env.pkgs[o.Pkg().Path()]; sp != nil {
					if g, ok := sp.Members[o.Name()].(*ssa.Global); ok {
						return c.p.val(g).T, o.Type()
					}
				}
			}
		}
		for _, g := range env.specs.GVars {
			if g.Name == x.Name {
				return c.ghostVarAddr(x.Name), c.resolveType(g.Type)
			}
		}
	case *ESel:
		if o := c.pkgObject(x); o != nil {
			if v, ok := o.(*types.Var); ok {
				if sp := env.pkgs[v.Pkg().Path()]; sp != nil {
					if g, ok := sp.Members[v.Name()].(*ssa.Global); ok {
						return c.p.val(g).T, v.Type()
					}
				}
			}
			return "", nil
		}
		// base: pointer value, or addressable struct
		var base string
		var st types.Type
		if ba, bt := c.addrOpt(x.X); ba != "" {
			if _, isStruct := bt.Underlying().(*types.Struct); isStruct {
				base, st = ba, bt
			} else if pt, isPtr := bt.Underlying().(*types.Pointer); isPtr {
				base, st = c.p.loadIn(c.st, ba, bt, false), pt.Elem()
			} else if _, isCh := bt.Underlying().(*types.Chan); isCh {
				base, st = c.p.loadIn(c.st, ba, bt, false), bt
			} else if _, isIf := bt.Underlying().(*types.Interface); isIf {
				base, st = "(iface_ref "+c.p.loadIn(c.st, ba, bt, false)+")", bt
			}
		}
		if base == "" {
			v := c.eval(x.X)
			switch u := v.Ty.Underlying().(type) {
			case *types.Pointer:
				base, st = v.T, u.Elem()
			case *types.Chan, *types.Map, *types.Signature:
				base, st = v.T, v.Ty // ghost fields on reference objects
			case *types.Interface:
				base, st = "(iface_ref "+v.T+")", v.Ty
			default:
				return "", nil
			}
		}
		if s, ok := st.Underlying().(*types.Struct); ok {
			for i := 0; i < s.NumFields(); i++ {
				if s.Field(i).Name() == x.Name {
					return fmt.Sprintf("(%s %s)", env.fieldFn(st, i), base), s.Field(i).Type()
				}
			}
		}
		// ghost field
		if gt, owner, ok := c.ghostField(st, x.Name); ok {
			return fmt.Sprintf("(%s %s)", env.fieldFnNamed("gfld_"+sanitize(owner)+"_"+x.Name), base), gt
		}
		c.fail("no field %s in %s", x.Name, st)
	case *EIndex:
		if ba, bt := c.addrOpt(x.X); ba != "" {
			if at, ok := bt.Underlying().(*types.Array); ok {
				return fmt.Sprintf("(idx %s %s)", ba, c.eval(x.I).T), at.Elem()
			}
		}
		v := c.eval(x.X)
		switch u := v.Ty.Underlying().(type) {
		case *types.Slice:
			return elemAddr(v.T, c.eval(x.I).T), u.Elem()
		case *types.Pointer:
			if at, ok := u.Elem().Underlying().(*types.Array); ok {
				return fmt.Sprintf("(idx %s %s)", v.T, c.eval(x.I).T), at.Elem()
			}
		}
	}
	return "", nil
}

func ghostOwner(t types.Type) string {
	switch u := t.(type) {
	case *types.Named:
		return u.Obj().Pkg().Name() + "." + u.Obj().Name()
	case *types.Alias:
		return ghostOwner(types.Unalias(u))
	}
	switch t.Underlying().(type) {
	case *types.Chan:
		return "chan"
	case *types.Map:
		return "map"
	case *types.Signature:
		return "func"
	case *types.Interface:
		return "any"
	}
	return shortTypeName(t)
}

func (c *SpecCtx) ghostField(owner types.Type, name string) (types.Type, string, bool) {
	on := ghostOwner(owner)
	for _, g := range c.env().specs.GFields {
		if g.Field == name && (g.Type == on || strings.HasSuffix(on, "."+g.Type)) {
			return c.resolveType(g.FType), on, true
		}
	}
	for _, g := range c.env().specs.GFields {
		if g.Field == name && g.Type == "any" && on != "chan" {
			return c.resolveType(g.FType), "any", true
		}
	}
	return nil, "", false
}

func (c *SpecCtx) binary(x *EBinary) Val {
	switch x.Op {
	case "&&", "||", "==>", "<==>":
		a, b := c.eval(x.X), c.eval(x.Y)
		op := map[string]string{"&&": "and", "||": "or", "==>": "=>", "<==>": "="}[x.Op]
		return Val{T: fmt.Sprintf("(%s %s %s)", op, a.T, b.T), Ty: tBool}
	}
	a, b := c.eval(x.X), c.eval(x.Y)
	switch x.Op {
	case "==", "!=":
		at, bt := a.T, b.T
		// nil literal against slices / interfaces
		if isNilLit(a) || isNilLit(b) {
			other := a
			if isNilLit(a) {
				other = b
			}
			switch c.sort(other.Ty) {
			case "Slice":
				r := fmt.Sprintf("(= (sl.arr %s) nil)", other.T)
				if x.Op == "!=" {
					r = "(not " + r + ")"
				}
				return Val{T: r, Ty: tBool}
			case "Iface":
				at, bt = other.T, "iface_nil"
			}
		}
		r := fmt.Sprintf("(= %s %s)", at, bt)
		if x.Op == "!=" {
			r = "(not " + r + ")"
		}
		return Val{T: r, Ty: tBool}
	case "<", "<=", ">", ">=":
		return Val{T: fmt.Sprintf("(%s %s %s)", x.Op, a.T, b.T), Ty: tBool}
	case "+":
		if c.sort(a.Ty) == "Str" {
			return Val{T: fmt.Sprintf("(scat %s %s)", a.T, b.T), Ty: a.Ty}
		}
		return Val{T: fmt.Sprintf("(+ %s %s)", a.T, b.T), Ty: arithType(a, b)}
	case "-", "*":
		return Val{T: fmt.Sprintf("(%s %s %s)", x.Op, a.T, b.T), Ty: arithType(a, b)}
	case "/":
		return Val{T: fmt.Sprintf("(div %s %s)", a.T, b.T), Ty: arithType(a, b)}
	case "%":
		return Val{T: fmt.Sprintf("(mod %s %s)", a.T, b.T), Ty: arithType(a, b)}
	}
	c.fail("unsupported operator %s", x.Op)
	return Val{}
}

func isNilLit(v Val) bool {
	b, ok := v.Ty.(*types.Basic)
	return ok && b.Kind() == types.UntypedNil
}

func arithType(a, b Val) types.Type {
	if isUntyped(a.Ty) {
		if isUntyped(b.Ty) {
			return tInt
		}
		return b.Ty
	}
	return a.Ty
}

func (c *SpecCtx) quant(q *EQuant) Val {
	vars := map[string]Val{}
	var binders, guards []string
	for _, v := range q.Vars {
		t := c.resolveType(v.Type)
		n := "q_" + v.Name
		binders = append(binders, fmt.Sprintf("(%s %s)", n, c.sort(t)))
		vars[v.Name] = Val{T: n, Ty: t}
		if v.Type != "int" {
			if lo, hi, ok := intRange(t); ok {
				guards = append(guards, fmt.Sprintf("(<= %s %s)", lo, n), fmt.Sprintf("(<= %s %s)", n, hi))
			}
		}
	}
	d := c.with(vars)
	body := d.eval(q.Body)
	bt := body.T
	if len(guards) > 0 {
		g := "(and " + strings.Join(guards, " ") + ")"
		if q.Forall {
			bt = fmt.Sprintf("(=> %s %s)", g, bt)
		} else {
			bt = fmt.Sprintf("(and %s %s)", g, bt)
		}
	}
	if len(q.Triggers) > 0 {
		var pats []string
		for _, tr := range q.Triggers {
			var ts []string
			for _, te := range tr {
				ts = append(ts, d.eval(te).T)
			}
			pats = append(pats, ":pattern ("+strings.Join(ts, " ")+")")
		}
		bt = fmt.Sprintf("(! %s %s)", bt, strings.Join(pats, " "))
	}
	kw := "exists"
	if q.Forall {
		kw = "forall"
	}
	return Val{T: fmt.Sprintf("(%s (%s) %s)", kw, strings.Join(binders, " "), bt), Ty: tBool}
}

func (c *SpecCtx) call(x *ECall) Val {
	env := c.env()
	arg := func(i int) Val {
		if i >= len(x.Args) {
			c.fail("%s: missing argument %d", x.Fun, i)
		}
		return c.eval(x.Args[i])
	}
	switch x.Fun {
	case "outer":
		// value at the start of the current iteration of the enclosing loop
		if c.loop == nil {
			c.fail("outer() outside a loop clause")
		}
		enc := c.p.fx.enclosingLoop(c.loop)
		if enc == nil {
			c.fail("outer(): loop has no enclosing loop")
		}
		vars, st, ok := c.p.startOf(enc)
		if !ok {
			c.fail("outer(): no snapshot of the enclosing loop on this path")
		}
		d := c.with(vars)
		d.st = st
		d.loop = enc
		d.cur = nil
		return d.eval(x.Args[0])
	case "now":
		if c.cur == nil {
			return c.eval(x.Args[0])
		}
		d := *c
		d.st = c.cur
		return d.eval(x.Args[0])
	case "old":
		if c.old == nil {
			c.fail("old() not available here")
		}
		d := *c
		d.st = c.old
		d.inOld = true
		return d.eval(x.Args[0])
	case "len":
		v := arg(0)
		switch u := v.Ty.Underlying().(type) {
		case *types.Basic:
			return Val{T: "(slen " + v.T + ")", Ty: tInt}
		case *types.Slice:
			return Val{T: "(sl.len " + v.T + ")", Ty: tInt}
		case *types.Array:
			return Val{T: fmt.Sprint(u.Len()), Ty: tInt}
		case *types.Pointer:
			if at, ok := u.Elem().Underlying().(*types.Array); ok {
				return Val{T: fmt.Sprint(at.Len()), Ty: tInt}
			}
		case *types.Chan:
			f := env.uf("chan_len", []string{"Ref"}, "Int")
			return Val{T: fmt.Sprintf("(%s %s)", f, v.T), Ty: tInt}
		}
		c.fail("len of %s", v.Ty)
	case "cap":
		v := arg(0)
		switch v.Ty.Underlying().(type) {
		case *types.Slice:
			return Val{T: "(sl.cap " + v.T + ")", Ty: tInt}
		case *types.Chan:
			f := env.uf("chan_cap", []string{"Ref"}, "Int")
			return Val{T: fmt.Sprintf("(%s %s)", f, v.T), Ty: tInt}
		}
		c.fail("cap of %s", v.Ty)
	case "ite":
		a, b, d := arg(0), arg(1), arg(2)
		t := b.Ty
		if isUntyped(t) {
			t = d.Ty
		}
		return Val{T: fmt.Sprintf("(ite %s %s %s)", a.T, b.T, d.T), Ty: t}
	case "fresh":
		v := arg(0)
		r := refOf(c, v)
		if c.old == nil {
			c.fail("fresh() needs an old state")
		}
		return Val{T: fmt.Sprintf("(and (> (stamp %s) %s) (<= (stamp %s) %s) (not (= %s nil)))", r, c.old.now, r, c.st.now, r), Ty: tBool}
	case "allocated":
		v := arg(0)
		return Val{T: fmt.Sprintf("(<= (stamp %s) %s)", refOf(c, v), c.st.now), Ty: tBool}
	case "has":
		m, k := arg(0), arg(1)
		mt, ok := m.Ty.Underlying().(*types.Map)
		if !ok {
			c.fail("has() on non-map")
		}
		hh, _ := env.mapHeaps(mt)
		return Val{T: fmt.Sprintf("(select (select %s %s) %s)", c.p.heapIn(c.st, hh), m.T, k.T), Ty: tBool}
	case "arr":
		v := arg(0)
		return Val{T: "(sl.arr " + v.T + ")", Ty: types.Typ[types.UnsafePointer]}
	case "off":
		v := arg(0)
		return Val{T: "(sl.off " + v.T + ")", Ty: tInt}
	case "and32":
		a, b := arg(0), arg(1)
		return Val{T: fmt.Sprintf("(and32 %s %s)", a.T, b.T), Ty: tInt}
	case "typeIs":
		v := arg(0)
		id, ok := x.Args[1].(*EIdent)
		tn := ""
		if ok {
			tn = id.Name
		} else if s, ok := x.Args[1].(*ESel); ok {
			tn = s.String()
		} else if u, ok := x.Args[1].(*EUnary); ok {
			tn = u.String()
		}
		t := c.resolveType(tn)
		return Val{T: fmt.Sprintf("(= (iface_type %s) %d)", v.T, env.typeTagOf(t)), Ty: tBool}
	case "isFieldOf":
		// isFieldOf(a, T.f): address a is the field f of some object of struct type T
		v := arg(0)
		sel, ok := x.Args[1].(*ESel)
		if !ok {
			c.fail("isFieldOf(a, T.f) expected")
		}
		t := c.resolveType(sel.X.String())
		st, ok := t.Underlying().(*types.Struct)
		if !ok {
			c.fail("isFieldOf: %s is not a struct", sel.X)
		}
		for i := 0; i < st.NumFields(); i++ {
			if st.Field(i).Name() == sel.Name {
				fn := env.fieldFn(t, i)
				return Val{T: fmt.Sprintf("(= (ftag %s) %d)", refOf(c, v), env.fieldTag[fn]), Ty: tBool}
			}
		}
		c.fail("isFieldOf: no field %s", sel.Name)
	case "isFieldOfOpt":
		// like isFieldOf, but false when the type is not part of the loaded program
		v := arg(0)
		sel, ok := x.Args[1].(*ESel)
		if !ok {
			c.fail("isFieldOfOpt(a, T.f) expected")
		}
		var t types.Type
		func() {
			defer func() {
				if r := recover(); r != nil {
					if _, isSpec := r.(specErr); !isSpec {
						panic(r)
					}
				}
			}()
			t = c.resolveType(sel.X.String())
		}()
		if t == nil {
			return Val{T: "false", Ty: tBool}
		}
		st, ok := t.Underlying().(*types.Struct)
		if !ok {
			return Val{T: "false", Ty: tBool}
		}
		for i := 0; i < st.NumFields(); i++ {
			if st.Field(i).Name() == sel.Name {
				fn := env.fieldFn(t, i)
				return Val{T: fmt.Sprintf("(= (ftag %s) %d)", refOf(c, v), env.fieldTag[fn]), Ty: tBool}
			}
		}
		return Val{T: "false", Ty: tBool}
	case "owned":
		// owned(x): the object x points to (or the backing array of slice x) is exclusively owned by this thread
		v := arg(0)
		var ds []string
		for _, f := range env.ownedFields() {
			ds = append(ds, fmt.Sprintf("(select %s (%s %s))", c.p.heapIn(c.st, env.memHeap(tBool)), f, refOf(c, v)))
		}
		return Val{T: "(or " + strings.Join(ds, " ") + ")", Ty: tBool}
	case "ownedIn":
		// ownedIn(x, pool): x (or the backing array of slice x) is checked out from that pool by this thread
		v := arg(0)
		id, ok := x.Args[1].(*EIdent)
		if !ok {
			c.fail("ownedIn(x, poolName)")
		}
		f := env.fieldFnNamed("gfld_any_owned_" + sanitize(id.Name))
		return Val{T: fmt.Sprintf("(select %s (%s %s))", c.p.heapIn(c.st, env.memHeap(tBool)), f, refOf(c, v)), Ty: tBool}
	case "pooled":
		// pooled(x): x (or the backing array of slice x) belongs to a sync.Pool's population
		v := arg(0)
		f := env.fieldFnNamed("gfld_any_pooled")
		return Val{T: fmt.Sprintf("(select %s (%s %s))", c.p.heapIn(c.st, env.memHeap(tBool)), f, refOf(c, v)), Ty: tBool}
	case "isGlobal":
		v := arg(0)
		return Val{T: fmt.Sprintf("(= (ftag %s) (- 2))", refOf(c, v)), Ty: tBool}
	case "isStructField":
		v := arg(0)
		return Val{T: fmt.Sprintf("(and (>= (ftag %s) 1) (< (ftag %s) 1000000))", refOf(c, v), refOf(c, v)), Ty: tBool}
	case "isElem":
		// isElem(a): address a is an array/slice element
		v := arg(0)
		return Val{T: fmt.Sprintf("(= (ftag %s) (- 1))", refOf(c, v)), Ty: tBool}
	case "f64zero":
		return Val{T: "f64_zero", Ty: types.Typ[types.Float64]}
	case "cast":
		v := arg(0)
		return Val{T: v.T, Ty: c.resolveType(x.Args[1].String())}
	case "implements":
		v := arg(0)
		t := c.resolveType(x.Args[1].String())
		f := env.uf("implements_"+sanitize(shortTypeName(t)), []string{"Int"}, "Bool")
		c.p.implFacts(f, t)
		return Val{T: fmt.Sprintf("(and (not (= %s iface_nil)) (%s (iface_type %s)))", v.T, f, v.T), Ty: tBool}
	case "any":
		v := arg(0)
		if c.sort(v.Ty) == "Iface" {
			return v
		}
		return Val{T: fmt.Sprintf("(%s %s)", env.mkIfaceFn(v.Ty), v.T), Ty: types.NewInterfaceType(nil, nil)}
	case "payload":
		v := arg(0)
		t := c.resolveType(x.Args[1].String())
		return Val{T: fmt.Sprintf("(%s %s)", env.ifacePayloadFn(t), v.T), Ty: t}
	case "ifaceRef":
		v := arg(0)
		return Val{T: "(iface_ref " + v.T + ")", Ty: types.Typ[types.UnsafePointer]}
	case "streq":
		a, b := arg(0), arg(1)
		return Val{T: fmt.Sprintf("(and (= (slen %s) (slen %s)) (forall ((i Int)) (! (=> (and (<= 0 i) (< i (slen %s))) (= (sat %s i) (sat %s i))) :pattern ((sat %s i)))))", a.T, b.T, a.T, a.T, b.T, a.T), Ty: tBool}
	case "int":
		return Val{T: arg(0).T, Ty: tInt}
	}
	// user-defined pure function (macro)
	if pd, ok := env.specs.Pures[x.Fun]; ok {
		if len(pd.Params) != len(x.Args) {
			c.fail("%s expects %d arguments", x.Fun, len(pd.Params))
		}
		if c.depth > 40 {
			c.fail("pure function recursion too deep at %s", x.Fun)
		}
		vars := map[string]Val{}
		for i, pr := range pd.Params {
			v := arg(i)
			if isUntyped(v.Ty) || isNilLit(v) {
				v.Ty = c.resolveType(pr.Type)
			}
			vars[pr.Name] = v
		}
		d := *c
		d.vars = vars
		d.depth = c.depth + 1
		d.fn = nil
		r := d.eval(pd.Body)
		if pd.Ret != "" {
			r.Ty = c.resolveType(pd.Ret)
		}
		return r
	}
	for fi := range env.specs.Folds {
		f := &env.specs.Folds[fi]
		if x.Fun == f.Name+"K" || x.Fun == f.Name+"D" {
			fk, fd := c.p.foldFns(f)
			v := arg(0)
			if x.Fun == f.Name+"K" {
				return Val{T: foldApp(fk, v.T), Ty: tInt}
			}
			return Val{T: foldApp(fd, v.T), Ty: tInt}
		}
	}
	if uf, ok := env.specs.UFs[x.Fun]; ok {
		var ss, ts []string
		for i, pt := range uf.Params {
			ss = append(ss, c.sort(c.resolveType(pt)))
			ts = append(ts, arg(i).T)
		}
		rt := c.resolveType(uf.Ret)
		f := env.uf("uf_"+sanitize(x.Fun), ss, c.sort(rt))
		if len(ts) == 0 {
			return Val{T: f, Ty: rt}
		}
		return Val{T: fmt.Sprintf("(%s %s)", f, strings.Join(ts, " ")), Ty: rt}
	}
	// method on a value, or qualified external function: uninterpreted "purefn" application
	if i := strings.LastIndex(x.Fun, "."); i > 0 || x.Recv != nil {
		recvName, meth := "", x.Fun
		if x.Recv == nil {
			recvName, meth = x.Fun[:i], x.Fun[i+1:]
		}
		k := 0
		if j := strings.Index(meth, "$"); j >= 0 {
			fmt.Sscanf(meth[j+1:], "%d", &k)
			meth = meth[:j]
		}
		var rv Val
		var err error
		if x.Recv != nil {
			rv, err = c.Eval(x.Recv)
		} else {
			rv, err = c.Eval(&EIdent{Name: recvName})
		}
		if err == nil && !strings.Contains(recvName, ".") {
			obj, _, _ := types.LookupFieldOrMethod(rv.Ty, true, c.pkg, meth)
			if f, ok := obj.(*types.Func); ok {
				sig := f.Type().(*types.Signature)
				key := qualTypeName(rv.Ty) + "." + meth
				if _, isIface := rv.Ty.Underlying().(*types.Interface); !isIface {
					rt := sig.Recv().Type()
					if pt, ok := rt.(*types.Pointer); ok {
						key = qualTypeName(pt.Elem())
						j := strings.LastIndex(key, ".")
						key = key[:j] + ".(*" + key[j+1:] + ")." + meth
					} else {
						key = qualTypeName(rt)
						j := strings.LastIndex(key, ".")
						key = key[:j] + ".(" + key[j+1:] + ")." + meth
					}
				}
				ss := []string{c.sort(rv.Ty)}
				ts := []string{rv.T}
				for i := range x.Args {
					a := arg(i)
					at := a.Ty
					if isUntyped(at) && i < sig.Params().Len() {
						at = sig.Params().At(i).Type()
					}
					ss = append(ss, c.sort(at))
					ts = append(ts, a.T)
				}
				rt := sig.Results().At(k).Type()
				fn := env.uf(fmt.Sprintf("pf_%s_%d", sanitize(key), k), ss, c.sort(rt))
				return Val{T: fmt.Sprintf("(%s %s)", fn, strings.Join(ts, " ")), Ty: rt}
			}
		}
		// package function pkg.F
		for _, sp := range env.prog.AllPackages() {
			if sp.Pkg.Name() != recvName {
				continue
			}
			if f, ok := sp.Pkg.Scope().Lookup(meth).(*types.Func); ok {
				sig := f.Type().(*types.Signature)
				var ss, ts []string
				for i := range x.Args {
					a := arg(i)
					at := a.Ty
					if (isUntyped(at) || isNilLit(a)) && i < sig.Params().Len() {
						at = sig.Params().At(i).Type()
					}
					ss = append(ss, c.sort(at))
					ts = append(ts, a.T)
				}
				rt := sig.Results().At(k).Type()
				fn := env.uf(fmt.Sprintf("pf_%s_%d", sanitize(sp.Pkg.Path()+"."+meth), k), ss, c.sort(rt))
				if len(ts) == 0 {
					return Val{T: fn, Ty: rt}
				}
				return Val{T: fmt.Sprintf("(%s %s)", fn, strings.Join(ts, " ")), Ty: rt}
			}
		}
	}
	c.fail("unknown function %s", x.Fun)
	return Val{}
}

func refOf(c *SpecCtx, v Val) string {
	switch c.sort(v.Ty) {
	case "Slice":
		return "(sl.arr " + v.T + ")"
	case "Iface":
		return "(iface_ref " + v.T + ")"
	}
	return v.T
}

// ---------- modifies locations ----------

func (c *SpecCtx) locs(e Expr) []Loc {
	env := c.env()
	if call, ok := e.(*ECall); ok {
		switch call.Fun {
		case "elems", "spare":
			v := c.eval(call.Args[0])
			sl, ok := v.Ty.Underlying().(*types.Slice)
			if !ok {
				c.fail("%s of non-slice", call.Fun)
			}
			lo, hi := "(sl.off "+v.T+")", fmt.Sprintf("(+ (sl.off %s) (sl.len %s))", v.T, v.T)
			if call.Fun == "spare" {
				lo, hi = hi, fmt.Sprintf("(+ (sl.off %s) (sl.cap %s))", v.T, v.T)
			}
			if len(call.Args) == 3 {
				lo = fmt.Sprintf("(+ (sl.off %s) %s)", v.T, c.eval(call.Args[1]).T)
				hi = fmt.Sprintf("(+ (sl.off %s) %s)", v.T, c.eval(call.Args[2]).T)
			}
			return c.p.regionLocs("(sl.arr "+v.T+")", lo, hi, sl.Elem())
		case "allmaps":
			// every row of every map that has the type of field T.f: allmaps(T.f)
			sel, ok := call.Args[0].(*ESel)
			if !ok {
				c.fail("allmaps(T.f) expected")
			}
			st, ok := c.resolveType(sel.X.String()).Underlying().(*types.Struct)
			if !ok {
				c.fail("allmaps: %s is not a struct", sel.X)
			}
			for i := 0; i < st.NumFields(); i++ {
				if st.Field(i).Name() == sel.Name {
					mt, ok := st.Field(i).Type().Underlying().(*types.Map)
					if !ok {
						c.fail("allmaps: %s is not a map", sel)
					}
					hh, hv := env.mapHeaps(mt)
					return []Loc{{Heap: hh, All: true}, {Heap: hv, All: true}}
				}
			}
			c.fail("allmaps: no field %s", sel.Name)
		case "entries":
			v := c.eval(call.Args[0])
			mt, ok := v.Ty.Underlying().(*types.Map)
			if !ok {
				c.fail("entries of non-map")
			}
			hh, hv := env.mapHeaps(mt)
			return []Loc{{Heap: hh, Addr: v.T, MapRow: true}, {Heap: hv, Addr: v.T, MapRow: true}}
		case "region":
			// every non-ghost address satisfying a pure predicate over a ref, in every scalar heap
			id, ok := call.Args[0].(*EIdent)
			if !ok {
				c.fail("region(pred) expects the name of a pure predicate")
			}
			d := c.with(map[string]Val{"%a": {T: "%ADDR%", Ty: types.Typ[types.UnsafePointer]}})
			v := d.eval(&ECall{Fun: id.Name, Args: []Expr{&EIdent{Name: "%a"}}})
			cond := fmt.Sprintf("(and %s (not (= (ftag %%ADDR%%) (- 4))) (not (= (ftag %%ADDR%%) (- 5))) (< (ftag %%ADDR%%) 1000000))", v.T)
			var out []Loc
			for hn := range heapSortTable {
				if strings.HasPrefix(hn, "Mem_") {
					out = append(out, Loc{Heap: hn, Pred: cond})
				}
			}
			sort.Slice(out, func(i, j int) bool { return out[i].Heap < out[j].Heap })
			return out
		case "ghostfields":
			// ghost field `name` of every object
			id, ok := call.Args[0].(*EIdent)
			if !ok {
				c.fail("ghostfields(name) expected")
			}
			if id.Name == "owned" {
				// every ownership marker
				var out []Loc
				for _, f := range env.ownedFields() {
					out = append(out, Loc{Heap: env.memHeap(tBool), AllTag: env.fieldTag[f]})
				}
				return out
			}
			for _, g := range env.specs.GFields {
				if g.Field == id.Name {
					owner := g.Type
					if !strings.Contains(owner, ".") && owner != "any" && owner != "chan" && owner != "map" && owner != "func" {
						// a type of the contract's own package: the accessor is named after the qualified type
						func() {
							defer func() { recover() }()
							owner = ghostOwner(c.resolveType(owner))
						}()
					}
					fn := env.fieldFnNamed("gfld_" + sanitize(owner) + "_" + g.Field)
					return []Loc{{Heap: env.memHeap(c.resolveType(g.FType)), AllTag: env.fieldTag[fn]}}
				}
			}
			c.fail("no ghost field %s", id.Name)
		case "cell":
			// the object at address x, whatever its type: that address in every scalar heap
			v := c.eval(call.Args[0])
			var out []Loc
			for hn := range heapSortTable {
				if strings.HasPrefix(hn, "Mem_") {
					out = append(out, Loc{Heap: hn, Addr: refOf(c, v)})
				}
			}
			sort.Slice(out, func(i, j int) bool { return out[i].Heap < out[j].Heap })
			return out
		case "fields":
			// field f of every object of type T: fields(T.f)
			sel, ok := call.Args[0].(*ESel)
			if !ok {
				c.fail("fields(T.f) expected")
			}
			t := c.resolveType(sel.X.String())
			st, ok := t.Underlying().(*types.Struct)
			if !ok {
				c.fail("fields: %s is not a struct", sel.X)
			}
			for i := 0; i < st.NumFields(); i++ {
				if st.Field(i).Name() == sel.Name {
					fn := env.fieldFn(t, i)
					if !isScalar(st.Field(i).Type()) {
						c.fail("fields: aggregate field")
					}
					return []Loc{{Heap: env.memHeap(st.Field(i).Type()), AllTag: env.fieldTag[fn]}}
				}
			}
			c.fail("fields: no field %s", sel.Name)
		case "entriesOf":
			// rows of every map stored in an array-typed location
			a, t := c.addr(call.Args[0])
			at, ok := t.Underlying().(*types.Array)
			if !ok {
				c.fail("entriesOf needs an array of maps")
			}
			mt, ok := at.Elem().Underlying().(*types.Map)
			if !ok {
				c.fail("entriesOf needs an array of maps")
			}
			hh, hv := env.mapHeaps(mt)
			rh := c.p.heapIn(c.st, env.memHeap(at.Elem()))
			return []Loc{{Heap: hh, RowsOf: a, RowsHeap: rh, RowsN: at.Len(), MapRow: true}, {Heap: hv, RowsOf: a, RowsHeap: rh, RowsN: at.Len(), MapRow: true}}
		case "allof":
			// every location of a heap sort: allof(int) etc. (used for arbitrary user code on its own objects)
			t := c.resolveType(call.Args[0].String())
			return []Loc{{Heap: env.memHeap(t), All: true}}
		}
	}
	a, t := c.addr(e)
	return c.p.flatLocs(a, t)
}
