package main

import (
	"go/token"
	"fmt"
	"go/types"
	"strings"

	"golang.org/x/tools/go/ssa"
)

// lookupSpec finds the contract that governs a call.
func (p *Path) lookupSpec(cc *ssa.CallCommon) (spec *FuncSpec, callee *ssa.Function, bindings []ssa.Value, what string) {
	specs := p.fx.env.specs
	if cc.IsInvoke() {
		rt := cc.Value.Type()
		key := "iface:" + qualTypeName(rt) + "." + cc.Method.Name()
		if specs.Funcs[key] == nil {
			// anonymous interface types (interface{ Unwrap() error }): contract by method name
			if alt := "iface:any." + cc.Method.Name(); specs.Funcs[alt] != nil {
				return specs.Funcs[alt], nil, nil, alt
			}
		}
		return specs.Funcs[key], nil, nil, key
	}
	switch v := cc.Value.(type) {
	case *ssa.Function:
		key := specKeyOf(v)
		return specs.Funcs[key], v, nil, key
	case *ssa.MakeClosure:
		fn := v.Fn.(*ssa.Function)
		key := specKeyOf(fn)
		return specs.Funcs[key], fn, v.Bindings, key
	}
	// dynamic call through a function value: contract of its (named) type, or of the static closure if known
	if val, ok := p.vals[cc.Value]; ok && p.closures != nil {
		if mc, ok := p.closures[val.T]; ok {
			fn := mc.Fn.(*ssa.Function)
			key := specKeyOf(fn)
			return specs.Funcs[key], fn, mc.Bindings, key
		}
	}
	key := "functype:" + qualTypeName(cc.Value.Type())
	return specs.Funcs[key], nil, nil, key
}

func qualTypeName(t types.Type) string {
	switch u := t.(type) {
	case *types.Named:
		if u.Obj().Pkg() == nil {
			return u.Obj().Name()
		}
		return u.Obj().Pkg().Path() + "." + u.Obj().Name()
	case *types.Alias:
		return qualTypeName(types.Unalias(u))
	case *types.Pointer:
		return "*" + qualTypeName(u.Elem())
	}
	return t.String()
}

func (p *Path) call(in ssa.Instruction, cc *ssa.CallCommon, mode string) Val {
	if b, ok := cc.Value.(*ssa.Builtin); ok {
		p.fx.site(in, "call("+b.Name()+")")
		p.siteGhosts(in, "before")
		r := p.builtin(in, b, cc)
		p.siteGhosts(in, "after")
		return r
	}
	if fn, ok := cc.Value.(*ssa.Function); ok && mode == "call" {
		switch specKeyOf(fn) {
		case "sync.(*Pool).Get", "sync.(*Pool).Put":
			if v, ok := p.poolCall(in, cc, fn.Name()); ok {
				return v
			}
		}
	}
	var args []Val
	if cc.IsInvoke() {
		args = append(args, p.val(cc.Value))
	}
	for _, a := range cc.Args {
		args = append(args, p.val(a))
	}
	spec, callee, bindings, what := p.lookupSpec(cc)
	var bvals []Val
	for _, b := range bindings {
		bvals = append(bvals, p.val(b))
	}
	var fnVal *Val
	if callee == nil && !cc.IsInvoke() {
		v := p.val(cc.Value)
		fnVal = &v
	}
	site := p.fx.site(in, "call("+calleeShort(cc)+")")
	return p.applySpec(in, site, spec, what, callee, cc.Signature(), args, bvals, fnVal, mode)
}

// paramNames of a callee: from SSA when available, else from the contract header, else from the signature.
func calleeParamNames(spec *FuncSpec, callee *ssa.Function, sig *types.Signature, nargs int) []string {
	var names []string
	if callee != nil && len(callee.Params) == nargs {
		for _, pr := range callee.Params {
			names = append(names, pr.Name())
		}
		return names
	}
	if spec != nil && len(spec.ParamNames) == nargs {
		return spec.ParamNames
	}
	if sig.Recv() != nil || nargs == sig.Params().Len()+1 {
		n := "recv"
		if sig.Recv() != nil && sig.Recv().Name() != "" && sig.Recv().Name() != "_" {
			n = sig.Recv().Name()
		}
		names = append(names, n)
	}
	for i := 0; i < sig.Params().Len(); i++ {
		n := sig.Params().At(i).Name()
		if n == "" || n == "_" {
			n = fmt.Sprintf("arg%d", i)
		}
		names = append(names, n)
	}
	for len(names) < nargs {
		names = append(names, fmt.Sprintf("arg%d", len(names)))
	}
	return names[:nargs]
}

func (p *Path) applySpec(in ssa.Instruction, site string, spec *FuncSpec, what string, callee *ssa.Function, sig *types.Signature, args, bvals []Val, fnVal *Val, mode string) Val {
	fx := p.fx
	env := fx.env
	resTy := sig.Results()
	mkResult := func() Val {
		switch resTy.Len() {
		case 0:
			return Val{Ty: resTy}
		case 1:
			return p.freshVal("ret", resTy.At(0).Type())
		}
		return p.freshVal("ret", resTy)
	}
	if spec == nil {
		p.oblige("nocontract", site, "no contract for callee "+what, "false")
		// conservative: havoc everything
		p.havocAll()
		return mkResult()
	}
	if spec.Assumed {
		env.assumptions["assumed-contract:"+strings.TrimPrefix(strings.TrimPrefix(what, "iface:"), "functype:")] = true
	}
	names := calleeParamNames(spec, callee, sig, len(args))
	vars := map[string]Val{}
	for i, n := range names {
		vars[n] = args[i]
	}
	if callee != nil {
		for i, fv := range callee.FreeVars {
			if i < len(bvals) {
				vars["&"+fv.Name()] = bvals[i]
			}
		}
	}
	if fnVal != nil {
		vars["self"] = *fnVal
	}
	var cpkg *types.Package
	if callee != nil {
		root := callee
		for root.Parent() != nil {
			root = root.Parent()
		}
		if root.Pkg != nil {
			cpkg = root.Pkg.Pkg
		}
	}
	if cpkg == nil {
		cpkg = specPkg(env, spec, what)
	}
	pre := p.st.clone()
	p.lockInvCheck(in, what, site)
	c := &SpecCtx{p: p, st: &p.st, old: nil, vars: vars, pkg: cpkg, closureCells: closureCells(callee, bvals)}
	// site ghosts "before"
	p.siteGhosts(in, "before")
	// preconditions
	for k, r := range spec.allRequires() {
		t, err := c.EvalBool(r.E)
		if err != nil {
			p.specError("requires of "+what, r, err)
			continue
		}
		lab := r.Label
		if lab == "" {
			lab = fmt.Sprint(k + 1)
		}
		if mode != "assume-pre" {
			p.oblige("pre."+lab, site, r.Src, t)
		}
		p.assume(t)
	}
	if spec.NoReturn {
		p.dead = true
		p.finish()
		return mkResult()
	}
	if mode == "go" {
		// the spawned goroutine runs concurrently; its effects reach this thread only through shared declarations
		p.siteGhosts(in, "after")
		return Val{}
	}
	// frame: what the callee may write
	var locs []Loc
	if !spec.ModAll {
		for i, m := range spec.Modifies {
			ls, err := safeLocs(c, m)
			if err != nil {
				p.specError("modifies of "+what, Clause{Src: spec.ModSrc[i], File: spec.File, Line: spec.Line}, err)
				continue
			}
			locs = append(locs, ls...)
		}
		p.frameCheck(site, locs)
	} else if fx.spec != nil && !fx.spec.ModAll {
		p.oblige("frame", site, "callee modifies everything but caller has a modifies clause", "false")
	}
	// iterator callee (e.g. slog.Record.Attrs): it calls the closure it is handed any number of times. Loop rule on the
	// callback: the closure's function-level invariants hold now, the closure's modifies set is havocked, and the
	// invariants hold afterwards (the closure itself is verified to preserve them).
	if itp := spec.Attrs["iterator"]; itp != "" {
		p.iteratorCall(in, site, itp, names, args)
	}
	// environment step for blocking callees
	if spec.Attrs["blocking"] == "yes" {
		p.envStep()
	}
	// havoc
	oldNow := p.st.now
	nn := p.fx.fresh("now")
	p.declare(nn, "Int")
	p.assume(fmt.Sprintf("(>= %s %s)", nn, oldNow))
	if spec.Pure {
		// no heap effect, deterministic result
	} else if spec.ModAll {
		p.st.now = nn
		// ghost locations the contract lists explicitly are not preserved
		exc := map[string][]string{}
		for i, m := range spec.Modifies {
			ls, err := safeLocs(c, m)
			if err != nil {
				p.specError("modifies of "+what, Clause{Src: spec.ModSrc[i], File: spec.File, Line: spec.Line}, err)
				continue
			}
			for _, l := range ls {
				if !l.Region && !l.MapRow && l.Addr != "" {
					exc[l.Heap] = append(exc[l.Heap], l.Addr)
				}
			}
		}
		p.havocAllExcept(spec, exc)
	} else {
		p.st.now = nn
		heaps := map[string][]Loc{}
		var order []string
		for _, l := range locs {
			if _, ok := heaps[l.Heap]; !ok {
				order = append(order, l.Heap)
			}
			heaps[l.Heap] = append(heaps[l.Heap], l)
		}
		// heaps the callee may write on fresh objects only
		if callee != nil {
			for _, h := range fx.v.writeSet(callee) {
				if _, ok := heaps[h]; !ok && heapSortTable[h] != "" {
					order = append(order, h)
					heaps[h] = nil
				}
			}
		}
		for _, hn := range order {
			oldH := p.heap(hn)
			newH := p.havocHeap(hn)
			var ds []string
			for _, l := range heaps[hn] {
				ds = append(ds, locCond(l, "a"))
			}
			mod := "false"
			if len(ds) > 0 {
				mod = "(or " + strings.Join(ds, " ") + ")"
			}
			if strings.HasPrefix(hn, "Mem_") {
				// marker ghost fields outside the modifies clause keep their value on objects the callee allocated, too
				p.assume(fmt.Sprintf("(forall ((a Ref)) (! (=> (and (or (<= (stamp a) %s) (>= (ftag a) 2000000)) (not %s)) (= (select %s a) (select %s a))) :pattern ((select %s a))))", oldNow, mod, newH, oldH, newH))
			} else {
				p.assume(fmt.Sprintf("(forall ((a Ref)) (! (=> (and (<= (stamp a) %s) (not %s)) (= (select %s a) (select %s a))) :pattern ((select %s a))))", oldNow, mod, newH, oldH, newH))
			}
		}
	}
	res := mkResult()
	if spec.Pure {
		// result is an uninterpreted function of the arguments
		var ss, ts []string
		for _, a := range args {
			ss = append(ss, env.sortOf(a.Ty))
			ts = append(ts, a.T)
		}
		base := "pf_" + sanitize(strings.TrimPrefix(what, "iface:"))
		mk := func(k int, t types.Type) string {
			f := env.uf(fmt.Sprintf("%s_%d", base, k), ss, env.sortOf(t))
			if len(ts) == 0 {
				return f
			}
			return fmt.Sprintf("(%s %s)", f, strings.Join(ts, " "))
		}
		if len(res.Tuple) > 0 {
			for k := range res.Tuple {
				p.assume(fmt.Sprintf("(= %s %s)", res.Tuple[k].T, mk(k, res.Tuple[k].Ty)))
			}
		} else if res.T != "" {
			p.assume(fmt.Sprintf("(= %s %s)", res.T, mk(0, res.Ty)))
		}
	}
	// panic successor
	if spec.MayPanic && mode != "defer" {
		q := p.fork()
		q.setGhost("panicking", tBool, "true")
		q.setGhost("panicSeen", tBool, "true")
		pv := q.fx.fresh("pval")
		q.declare(pv, "Iface")
		q.assume(fmt.Sprintf("(not (= %s iface_nil))", pv))
		q.setGhost("pval", types.NewInterfaceType(nil, nil), pv)
		cq := &SpecCtx{p: q, st: &q.st, old: &pre, vars: vars, pkg: cpkg}
		for _, e := range spec.OnPanic {
			q.assumeClause(cq, e, "onpanic of "+what)
		}
		q.trace = append(q.trace, 9000)
		q.unwind(false)
	}
	// postconditions
	rvars := map[string]Val{}
	for k, v := range vars {
		rvars[k] = v
	}
	if len(res.Tuple) > 0 {
		for k, v := range res.Tuple {
			rvars[fmt.Sprintf("result%d", k)] = v
			if n := resTy.At(k).Name(); n != "" && n != "_" {
				if _, clash := rvars[n]; !clash {
					rvars[n] = v
				}
				rvars["ret_"+n] = v
			}
		}
	} else if res.T != "" {
		rvars["result"] = res
		rvars["result0"] = res
		if n := resTy.At(0).Name(); n != "" && n != "_" {
			if _, clash := rvars[n]; !clash {
				rvars[n] = res
			}
			rvars["ret_"+n] = res
		}
	}
	c2 := &SpecCtx{p: p, st: &p.st, old: &pre, vars: rvars, pkg: cpkg, closureCells: closureCells(callee, bvals)}
	guard := ""
	if spec.Guard != nil {
		cg := &SpecCtx{p: p, st: &pre, old: nil, vars: vars, pkg: cpkg, closureCells: closureCells(callee, bvals)}
		g, err := cg.EvalBool(spec.Guard.E)
		if err != nil {
			p.specError("guard of "+what, *spec.Guard, err)
			guard = "false"
		} else {
			guard = g
		}
	}
	for _, e := range spec.allEnsures() {
		if guard == "" {
			p.assumeClause(c2, e, "ensures of "+what)
			continue
		}
		t, err := c2.EvalBool(e.E)
		if err != nil {
			if !strings.HasPrefix(e.Label, "opt") {
				p.specError("ensures of "+what, e, err)
			}
			continue
		}
		p.assume(fmt.Sprintf("(=> %s %s)", guard, t))
	}

	// dynamic dispatch refinement: if the receiver's dynamic type is a repo type whose method is under contract,
	// that (verified) contract holds as well
	if strings.HasPrefix(what, "iface:") && len(args) > 0 {
		p.dispatchFacts(what, args, res, resTy, &pre)
	}
	p.lastRet = res
	p.siteGhosts(in, "after")
	p.lastRet = Val{}
	return res
}

// dispatchFacts: for an interface method call, assume `dynamic type is *T ==> ensures of (*T).M` for every repo
// type *T that has a contract for M.
func (p *Path) dispatchFacts(what string, args []Val, res Val, resTy *types.Tuple, pre *State) {
	env := p.fx.env
	meth := what[strings.LastIndex(what, ".")+1:]
	for key, spec := range env.specs.Funcs {
		if spec.Kind != "func" || !strings.HasSuffix(key, ")."+meth) || !strings.HasPrefix(key, repoModule) {
			continue
		}
		fn := p.fx.v.funcs[key]
		if fn == nil || fn.Signature.Recv() == nil || len(fn.Params) != len(args) {
			continue
		}
		rt := fn.Signature.Recv().Type()
		pt, ok := rt.(*types.Pointer)
		if !ok {
			continue
		}
		iface, ok := args[0].Ty.Underlying().(*types.Interface)
		if !ok || !types.Implements(rt, iface) {
			continue
		}
		_ = pt
		vars := map[string]Val{}
		vars[fn.Params[0].Name()] = Val{T: "(iface_ref " + args[0].T + ")", Ty: rt}
		for i := 1; i < len(args); i++ {
			vars[fn.Params[i].Name()] = args[i]
		}
		if len(res.Tuple) > 0 {
			for k, v := range res.Tuple {
				vars[fmt.Sprintf("result%d", k)] = v
				if n := resTy.At(k).Name(); n != "" {
					vars[n] = v
				}
			}
		} else if res.T != "" {
			vars["result"] = res
			vars["result0"] = res
			if n := fn.Signature.Results().At(0).Name(); n != "" && n != "_" {
				vars[n] = res
			}
		}
		c := &SpecCtx{p: p, st: &p.st, old: pre, vars: vars, pkg: fn.Pkg.Pkg}
		tag := env.typeTagOf(rt)
		// the concrete contract applies to calls that meet its precondition
		cp := &SpecCtx{p: p, st: pre, old: nil, vars: vars, pkg: fn.Pkg.Pkg}
		ante := []string{fmt.Sprintf("(= (iface_type %s) %d)", args[0].T, tag)}
		okPre := true
		for _, r := range spec.allRequires() {
			t, err := cp.EvalBool(r.E)
			if err != nil {
				okPre = false
				break
			}
			ante = append(ante, t)
		}
		if !okPre {
			continue
		}
		for _, e := range spec.allEnsures() {
			t, err := c.EvalBool(e.E)
			if err != nil {
				continue
			}
			p.assume(fmt.Sprintf("(=> (and %s) %s)", strings.Join(ante, " "), t))
		}
		env.assumptions["dispatch: dynamic type "+shortTypeName(rt)+" ==> contract of "+shortKey(key)] = true
	}
}

func closureCells(callee *ssa.Function, bvals []Val) map[string]Val {
	if callee == nil || len(bvals) == 0 {
		return nil
	}
	m := map[string]Val{}
	for i, fv := range callee.FreeVars {
		if i < len(bvals) {
			m[fv.Name()] = bvals[i]
		}
	}
	return m
}

func safeLocs(c *SpecCtx, e Expr) (l []Loc, err error) {
	defer func() {
		if r := recover(); r != nil {
			if se, ok := r.(specErr); ok {
				err = fmt.Errorf("%s", string(se))
				return
			}
			panic(r)
		}
	}()
	return c.locs(e), nil
}

func specPkg(env *Env, spec *FuncSpec, what string) *types.Package {
	// package of an external contract: the qualifier before the last dot of the function name
	w := strings.TrimPrefix(strings.TrimPrefix(what, "iface:"), "functype:")
	if i := strings.Index(w, ".("); i >= 0 {
		w = w[:i]
	} else if i := strings.LastIndex(w, "."); i >= 0 {
		w = w[:i]
	}
	for w != "" {
		if sp, ok := env.pkgs[w]; ok {
			return sp.Pkg
		}
		i := strings.LastIndex(w, ".")
		if i < 0 {
			break
		}
		w = w[:i]
	}
	return nil
}

func (p *Path) havocAll() {
	nn := p.fx.fresh("now")
	p.declare(nn, "Int")
	p.assume(fmt.Sprintf("(>= %s %s)", nn, p.st.now))
	p.st = State{epoch: p.fx.fresh("e"), epochNow: nn, heaps: map[string]string{}, now: nn}
	p.fx.wroteAll = true
}

// havocAllExcept: arbitrary code ran (a handler, a task): every heap is havocked, except that locations the
// contract lists under `attr preserves` keep their value.
func (p *Path) havocAllExcept(spec *FuncSpec, exc map[string][]string) {
	pre := p.st.clone()
	now := p.st.now
	// the callee cannot write this function's non-escaping locals, nor closure cells it was not handed
	type keep struct {
		addr string
		t    types.Type
		old  string
	}
	var keeps []keep
	for _, a := range p.fx.allocs {
		v, ok := p.vals[a]
		if !ok || allocEscapes(a) {
			continue
		}
		t := a.Type().Underlying().(*types.Pointer).Elem()
		if isScalar(t) {
			keeps = append(keeps, keep{v.T, t, p.loadIn(&pre, v.T, t, false)})
		}
	}
	for _, fv := range p.fx.fn.FreeVars {
		if pt, ok := fv.Type().Underlying().(*types.Pointer); ok && isScalar(pt.Elem()) {
			v := p.val(fv)
			keeps = append(keeps, keep{v.T, pt.Elem(), p.loadIn(&pre, v.T, pt.Elem(), false)})
		}
	}
	p.st = State{epoch: p.fx.fresh("e"), epochNow: now, heaps: map[string]string{}, now: now, prev: &pre, prevExcept: exc}
	p.fx.wroteAll = true
	p.envStep()
	for _, k := range keeps {
		p.assume(fmt.Sprintf("(= %s %s)", p.loadIn(&p.st, k.addr, k.t, false), k.old))
	}
}

// isStackCell: a local variable's cell whose address is only used for loads, stores and closure capture (it may be
// shared with closures of this function, but is never handed to other code as a value). Such cells get ftag -5;
// `modifies region(pred)` never covers them: a callee can change a caller's variable only through a closure it is
// handed, and contracts of such higher-order callees must say so explicitly.
func isStackCell(a *ssa.Alloc) bool {
	var ok func(v ssa.Value, depth int) bool
	ok = func(v ssa.Value, depth int) bool {
		if depth > 4 {
			return false
		}
		for _, r := range *v.Referrers() {
			switch u := r.(type) {
			case *ssa.UnOp, *ssa.DebugRef:
			case *ssa.Store:
				if u.Val == v {
					return false
				}
			case *ssa.MakeClosure:
			case *ssa.FieldAddr:
				if !ok(u, depth+1) {
					return false
				}
			case *ssa.IndexAddr:
				if !ok(u, depth+1) {
					return false
				}
			default:
				return false
			}
		}
		return true
	}
	return ok(a, 0)
}

// writeOnceStore: the local cell a (a variable captured by closures) is assigned exactly once in its function and is
// otherwise only read: by loads, and by closures that capture it and themselves only read it. Returns that store.
func writeOnceStore(a *ssa.Alloc) *ssa.Store {
	var st *ssa.Store
	var readOnly func(v ssa.Value, depth int) bool
	readOnly = func(v ssa.Value, depth int) bool {
		if depth > 4 || v.Referrers() == nil {
			return false
		}
		for _, r := range *v.Referrers() {
			switch u := r.(type) {
			case *ssa.DebugRef:
			case *ssa.UnOp:
				if u.Op != token.MUL {
					return false
				}
			case *ssa.Store:
				if u.Val == v || depth > 0 || st != nil {
					return false
				}
				st = u
			case *ssa.MakeClosure:
				cf, ok := u.Fn.(*ssa.Function)
				if !ok {
					return false
				}
				for i, b := range u.Bindings {
					if b == v && !readOnly(cf.FreeVars[i], depth+1) {
						return false
					}
				}
			default:
				return false
			}
		}
		return true
	}
	if !readOnly(a, 0) || st == nil {
		return nil
	}
	// the assignment is not inside a loop (it runs at most once per activation)
	seen := map[*ssa.BasicBlock]bool{}
	var reach func(b *ssa.BasicBlock) bool
	reach = func(b *ssa.BasicBlock) bool {
		for _, s := range b.Succs {
			if s == st.Block() {
				return true
			}
			if !seen[s] {
				seen[s] = true
				if reach(s) {
					return true
				}
			}
		}
		return false
	}
	if reach(st.Block()) {
		return nil
	}
	return st
}

// allocEscapes: the address of a local is used other than as the direct target of loads and stores.
func allocEscapes(a *ssa.Alloc) bool {
	for _, r := range *a.Referrers() {
		switch u := r.(type) {
		case *ssa.UnOp:
		case *ssa.Store:
			if u.Val == a {
				return true
			}
		case *ssa.DebugRef:
		default:
			return true
		}
	}
	return false
}

// siteGhosts runs the ghost statements anchored at this call.
func (p *Path) siteGhosts(in ssa.Instruction, when string) {
	fx := p.fx
	if fx.spec == nil || in == nil {
		return
	}
	ci, ok := in.(ssa.CallInstruction)
	if !ok {
		return
	}
	short := calleeShort(ci.Common())
	site := fx.siteName[in]
	ord := 0
	if i := strings.LastIndex(site, "#"); i >= 0 {
		fmt.Sscanf(site[i+1:], "%d", &ord)
	}
	argVars := map[string]Val{}
	{
		cc := ci.Common()
		k := 0
		if cc.IsInvoke() {
			argVars["arg0"] = p.val(cc.Value)
			k = 1
		}
		for i, a := range cc.Args {
			argVars[fmt.Sprintf("arg%d", i+k)] = p.val(a)
		}
	}
	for _, g := range fx.spec.Ghosts {
		if g.When != when || g.Callee != short || (g.Ord != 0 && g.Ord != ord) {
			continue
		}
		if when == "after" && p.lastRet.T != "" {
			argVars["ret"] = p.lastRet
		}
		c := p.specCtx().with(argVars)
		switch g.Kind {
		case "set":
			a, t, ok := c.tryAddr(g.Target)
			if !ok {
				p.specError("ghost set", Clause{Src: g.Src, File: fx.spec.File}, fmt.Errorf("target is not a location"))
				continue
			}
			v, err := c.Eval(g.Value)
			if err != nil {
				p.specError("ghost set", Clause{Src: g.Src, File: fx.spec.File}, err)
				continue
			}
			// a ghost update is a write like any other: it must be covered by the function's modifies clause
			p.frameCheck(site+"."+when+".ghost", p.flatLocs(a, t))
			p.store(a, t, v.T)
		case "assert":
			t, err := c.EvalBool(g.Value)
			if err != nil {
				p.specError("ghost assert", Clause{Src: g.Src, File: fx.spec.File}, err)
				continue
			}
			kind := "assert"
			if g.Label != "" {
				kind = "assert." + g.Label
			}
			p.oblige(kind, site+"."+when, g.Src, t)
			p.assume(t)
		}
	}
}

// ---------- builtins ----------

func (p *Path) builtin(in ssa.Instruction, b *ssa.Builtin, cc *ssa.CallCommon) Val {
	env := p.fx.env
	var resTy types.Type
	if v, ok := in.(ssa.Value); ok {
		resTy = v.Type()
	}
	arg := func(i int) Val { return p.val(cc.Args[i]) }
	switch b.Name() {
	case "len":
		x := arg(0)
		switch u := x.Ty.Underlying().(type) {
		case *types.Basic:
			return Val{T: "(slen " + x.T + ")", Ty: resTy}
		case *types.Slice:
			return Val{T: "(sl.len " + x.T + ")", Ty: resTy}
		case *types.Array:
			return Val{T: fmt.Sprint(u.Len()), Ty: resTy}
		case *types.Pointer:
			if at, ok := u.Elem().Underlying().(*types.Array); ok {
				return Val{T: fmt.Sprint(at.Len()), Ty: resTy}
			}
		case *types.Chan:
			// instantaneous, racy by nature: any value within the capacity
			r := p.freshVal("chanlen", resTy)
			f := env.uf("chan_cap", []string{"Ref"}, "Int")
			p.assume(fmt.Sprintf("(and (<= 0 %s) (<= %s (%s %s)))", r.T, r.T, f, x.T))
			return r
		case *types.Map:
			r := p.freshVal("maplen", resTy)
			p.assume(fmt.Sprintf("(<= 0 %s)", r.T))
			return r
		}
	case "cap":
		x := arg(0)
		switch x.Ty.Underlying().(type) {
		case *types.Slice:
			return Val{T: "(sl.cap " + x.T + ")", Ty: resTy}
		case *types.Chan:
			f := env.uf("chan_cap", []string{"Ref"}, "Int")
			return Val{T: fmt.Sprintf("(%s %s)", f, x.T), Ty: resTy}
		}
	case "append":
		s, t := arg(0), arg(1)
		site := p.fx.site(in, "call(append)")
		// frame: an in-place append writes the spare capacity of s
		if p.fx.spec != nil && !p.fx.spec.ModAll {
			elem := resTy.Underlying().(*types.Slice).Elem()
			n := "(sl.len " + t.T + ")"
			if env.sortOf(t.Ty) == "Str" {
				n = "(slen " + t.T + ")"
			}
			lo := fmt.Sprintf("(+ (sl.off %s) (sl.len %s))", s.T, s.T)
			hi := fmt.Sprintf("(+ (sl.off %s) (sl.len %s) %s)", s.T, s.T, n)
			for _, l := range p.regionLocs("(sl.arr "+s.T+")", lo, hi, elem) {
				p.fx.mayWrite[l.Heap] = true
				wrap := func(a string) string {
					if l.FieldFn != "" {
						return fmt.Sprintf("(%s %s)", l.FieldFn, a)
					}
					return a
				}
				a := wrap(fmt.Sprintf("(idx %s k)", l.Addr))
				own := p.ownedAt(a)
				f := fmt.Sprintf("(=> (<= (+ (sl.len %s) %s) (sl.cap %s)) (or (> (stamp (sl.arr %s)) now_0) (forall ((k Int)) (=> (and (<= %s k) (< k %s)) (or %s %s)))))",
					s.T, n, s.T, s.T, lo, hi, p.modCond(l.Heap, a), own)
				p.oblige("frame", site, "in-place append writes fresh memory or stays within the modifies clause", f)
			}
		}
		rv := p.appendOp(in, s, t, resTy)
		p.foldAppend(in, cc, s, t, rv.T)
		return rv
	case "copy":
		dst, src := arg(0), arg(1)
		site := p.fx.site(in, "call(copy)")
		n := p.fx.fresh("ncopy")
		p.declare(n, "Int")
		srcLen := "(sl.len " + src.T + ")"
		srcIsStr := env.sortOf(src.Ty) == "Str"
		if srcIsStr {
			srcLen = "(slen " + src.T + ")"
		}
		p.assume(fmt.Sprintf("(= %s (ite (< (sl.len %s) %s) (sl.len %s) %s))", n, dst.T, srcLen, dst.T, srcLen))
		elem := dst.Ty.Underlying().(*types.Slice).Elem()
		if !isScalar(elem) {
			p.unsupported("copy of aggregates", in)
			return Val{T: n, Ty: resTy}
		}
		lo := "(sl.off " + dst.T + ")"
		hi := fmt.Sprintf("(+ (sl.off %s) %s)", dst.T, n)
		p.frameCheck(site, []Loc{{Heap: env.memHeap(elem), Addr: "(sl.arr " + dst.T + ")", Region: true, Lo: lo, Hi: hi}})
		hn := env.memHeap(elem)
		old := p.heap(hn)
		nh := p.havocHeapRaw(hn)
		var srcAt string
		if srcIsStr {
			srcAt = fmt.Sprintf("(sat %s (- (iidx a) (sl.off %s)))", src.T, dst.T)
		} else {
			srcAt = fmt.Sprintf("(select %s (idx (sl.arr %s) (+ (sl.off %s) (- (iidx a) (sl.off %s)))))", old, src.T, src.T, dst.T)
		}
		p.assume(fmt.Sprintf("(forall ((a Ref)) (! (= (select %s a) (ite (and (= (ftag a) (- 1)) (= (ibase a) (sl.arr %s)) (<= %s (iidx a)) (< (iidx a) %s)) %s (select %s a))) :pattern ((select %s a))))", nh, dst.T, lo, hi, srcAt, old, nh))
		return Val{T: n, Ty: resTy}
	case "delete":
		m, k := arg(0), arg(1)
		mt := m.Ty.Underlying().(*types.Map)
		hh, _ := env.mapHeaps(mt)
		site := p.fx.site(in, "call(delete)")
		p.guardMap(cc.Args[0], true, site)
		p.frameCheck(site, []Loc{{Heap: hh, Addr: m.T, MapRow: true}})
		p.setHeap(hh, fmt.Sprintf("(ite (= %s nil) %s (store %s %s (store (select %s %s) %s false)))", m.T, p.heap(hh), p.heap(hh), m.T, p.heap(hh), m.T, k.T))
		return Val{}
	case "max", "min":
		x, y := arg(0), arg(1)
		op := ">="
		if b.Name() == "min" {
			op = "<="
		}
		if env.sortOf(x.Ty) == "Int" {
			return Val{T: fmt.Sprintf("(ite (%s %s %s) %s %s)", op, x.T, y.T, x.T, y.T), Ty: resTy}
		}
	case "recover":
		pan := p.getGhost("panicking", tBool)
		pv := p.getGhost("pval", types.NewInterfaceType(nil, nil))
		r := p.fx.fresh("recovered")
		p.declare(r, "Iface")
		p.assume(fmt.Sprintf("(= %s (ite %s %s iface_nil))", r, pan, pv))
		p.assume(fmt.Sprintf("(=> %s (not (= %s iface_nil)))", pan, pv))
		p.setGhost("panicking", tBool, "false")
		return Val{T: r, Ty: resTy}
	case "close":
		ch := arg(0)
		p.chanClose(in, ch)
		return Val{}
	case "print", "println":
		return Val{}
	}
	p.unsupported("builtin "+b.Name(), in)
	if resTy != nil {
		return p.freshVal("builtin", resTy)
	}
	return Val{}
}

// ---------- defer / panic ----------

func (p *Path) runDefers() {
	for len(p.defers) > 0 {
		d := p.defers[len(p.defers)-1]
		p.defers = p.defers[:len(p.defers)-1]
		p.runDeferred(d)
		if p.dead {
			return
		}
	}
}

func (p *Path) runDeferred(d deferRec) {
	cc := &d.instr.Call
	if b, ok := cc.Value.(*ssa.Builtin); ok {
		_ = b
		p.unsupported("deferred builtin", d.instr)
		return
	}
	var args []Val
	if cc.IsInvoke() {
		args = append(args, d.fnVal)
	}
	args = append(args, d.args...)
	spec, callee, bindings, what := p.lookupSpec(cc)
	var bvals []Val
	for _, b := range bindings {
		bvals = append(bvals, p.val(b))
	}
	site := p.fx.site(d.instr, "call("+calleeShort(cc)+")") + ".deferred"
	p.applySpec(d.instr, site, spec, what, callee, cc.Signature(), args, bvals, nil, "defer")
}

// unwind: a panic is propagating. Run the deferred calls; afterwards either the panic was recovered (normal
// return through the Recover block) or it escapes.
func (p *Path) unwind(explicit bool) {
	p.runDefers()
	if p.dead {
		return
	}
	fx := p.fx
	pan := p.getGhost("panicking", tBool)
	// recovered: function returns normally with zero/named results
	q := p.fork()
	q.assume("(not " + pan + ")")
	q.trace = append(q.trace, 9001)
	vars := map[string]Val{}
	res := fx.fn.Signature.Results()
	if res.Len() == 0 {
		q.checkPost("recovered", vars, false)
	} else {
		q.unsupported("recovered panic in a function with results", nil)
	}
	q.finish()
	// escapes
	p.assume(pan)
	p.trace = append(p.trace, 9002)
	if fx.spec != nil && fx.spec.MayPanic {
		p.checkPost("panic", map[string]Val{}, true)
	} else {
		p.oblige("nopanic-escape", "", "no panic escapes this function", "false")
	}
	p.finish()
}

// poolCall: sync.Pool with a declared pool invariant (DESIGN 2.9). Get returns an exclusively owned item that
// satisfies the invariant; Put requires the invariant.
func (p *Path) poolCall(in ssa.Instruction, cc *ssa.CallCommon, method string) (Val, bool) {
	env := p.fx.env
	var inv *PoolInv
	var owner Val
	switch a := cc.Args[0].(type) {
	case *ssa.FieldAddr:
		st := a.X.Type().Underlying().(*types.Pointer).Elem()
		fname := st.Underlying().(*types.Struct).Field(a.Field).Name()
		on := ghostOwner(st)
		for i := range env.specs.Pools {
			pi := &env.specs.Pools[i]
			if pi.Field == fname && pi.Owner != "" && (pi.Owner == on || strings.HasSuffix(on, "."+pi.Owner)) {
				inv = pi
				owner = p.val(a.X)
			}
		}
	case *ssa.Global:
		for i := range env.specs.Pools {
			pi := &env.specs.Pools[i]
			if pi.Owner == "" && pi.Field == a.Name() && pi.Pkg == a.Pkg.Pkg.Path() {
				inv = pi
			}
		}
	}
	if inv == nil {
		return Val{}, false
	}
	site := p.fx.site(in, "call("+method+")")
	c := p.specCtx()
	c.fn = nil
	it := c.resolveType(inv.IType)
	env.assumptions["assumed-contract:sync.Pool (Get returns New() or a previously Put item, exclusively owned; pool invariant "+inv.Field+")"] = true
	vars := map[string]Val{}
	if owner.T != "" {
		vars["owner"] = owner
	}
	if method == "Get" {
		item := p.fx.fresh("pooled")
		p.declare(item, "Ref")
		p.assume(fmt.Sprintf("(and (not (= %s nil)) (<= (stamp %s) %s) (= (ftag %s) 0))", item, item, p.st.now, item))
		vars[inv.Item] = Val{T: item, Ty: it}
		t, err := c.with(vars).EvalBool(inv.E)
		if err != nil {
			p.specError("poolinv", Clause{Src: inv.Src}, err)
		} else {
			p.assume(t)
		}
		// the caller owns the item exclusively until Put: the item's cell and, for a buffer item, its backing array
		// it belongs to the pool's population, which ordinary data structures are separate from (their invariants
		// say !pooled(..)); pooled is only ever assumed here, nothing sets it
		pf := env.fieldFnNamed("gfld_any_pooled")
		bh := p.heap(env.memHeap(tBool))
		p.assume(fmt.Sprintf("(select %s (%s %s))", bh, pf, item))
		// ... and is not an item this thread has checked out already
		p.assume(fmt.Sprintf("(not %s)", p.ownedAt(item)))
		p.setOwned(inv.Field, item, "true")
		if pt, ok := it.Underlying().(*types.Pointer); ok {
			if _, isSl := pt.Elem().Underlying().(*types.Slice); isSl {
				arr := fmt.Sprintf("(sl.arr (select %s %s))", p.heap(env.memHeap(pt.Elem())), item)
				p.assume(fmt.Sprintf("(or (= %s nil) (and (select %s (%s %s)) (not %s)))", arr, bh, pf, arr, p.ownedAt(arr)))
				p.setOwned(inv.Field, arr, "true")
			}
		}
		p.siteGhosts(in, "after")
		return Val{T: fmt.Sprintf("(%s %s)", env.mkIfaceFn(it), item), Ty: in.(ssa.Value).Type()}, true
	}
	// Put
	x := p.val(cc.Args[1])
	vars[inv.Item] = Val{T: "(iface_ref " + x.T + ")", Ty: it}
	p.oblige("pool.type", site, "item put into the pool has the pool's item type", fmt.Sprintf("(= (iface_type %s) %d)", x.T, env.typeTagOf(it)))
	t, err := c.with(vars).EvalBool(inv.E)
	if err != nil {
		p.specError("poolinv", Clause{Src: inv.Src}, err)
	} else {
		p.oblige("pool.inv", site, "pool invariant holds for the item returned to the pool: "+inv.Src, t)
	}
	p.setOwned(inv.Field, "(iface_ref "+x.T+")", "false")
	p.siteGhosts(in, "after")
	return Val{}, true
}

// lockInvCheck: the declared lock invariant holds whenever the lock is released.
func (p *Path) lockInvCheck(in ssa.Instruction, what, site string) {
	switch what {
	case "sync.(*Mutex).Unlock", "sync.(*RWMutex).Unlock", "sync.(*RWMutex).RUnlock":
	default:
		return
	}
	ci, ok := in.(ssa.CallInstruction)
	if !ok || len(ci.Common().Args) == 0 {
		return
	}
	var fa *ssa.FieldAddr
	switch a := ci.Common().Args[0].(type) {
	case *ssa.FieldAddr:
		fa = a
	case *ssa.UnOp: // pointer-typed mutex field: *(&x.mu)
		if f, ok := a.X.(*ssa.FieldAddr); ok {
			fa = f
		}
	}
	if fa == nil {
		return
	}
	st := fa.X.Type().Underlying().(*types.Pointer).Elem()
	fname := st.Underlying().(*types.Struct).Field(fa.Field).Name()
	owner := ghostOwner(st)
	for _, li := range p.fx.env.specs.LockInvs {
		if li.Field != fname || !(li.Owner == owner || strings.HasSuffix(owner, "."+li.Owner)) {
			continue
		}
		c := p.specCtx().with(map[string]Val{"x": p.val(fa.X)})
		c.fn = nil
		t, err := c.EvalBool(li.E)
		if err != nil {
			p.specError("lockinv", Clause{Src: li.Src}, err)
			continue
		}
		p.oblige("lockinv", site, "lock invariant holds at release: "+li.Src, t)
	}
}

func (p *Path) iteratorCall(in ssa.Instruction, site, param string, names []string, args []Val) {
	fx := p.fx
	env := fx.env
	idx := -1
	for i, n := range names {
		if n == param {
			idx = i
		}
	}
	if idx < 0 {
		p.unsupported("iterator parameter "+param+" not found", in)
		return
	}
	mc, ok := p.closures[args[idx].T]
	if !ok {
		p.unsupported("iterator callback is not a closure created in this function", in)
		return
	}
	cfn := mc.Fn.(*ssa.Function)
	key := specKeyOf(cfn)
	cs := env.specs.Funcs[key]
	if cs == nil {
		p.oblige("nocontract", site, "no contract for iterator callback "+key, "false")
		p.havocAll()
		return
	}
	var bvals []Val
	for _, b := range mc.Bindings {
		bvals = append(bvals, p.val(b))
	}
	mk := func() *SpecCtx {
		return &SpecCtx{p: p, st: &p.st, vars: map[string]Val{}, pkg: fx.pkgTypes(), closureCells: closureCells(cfn, bvals)}
	}
	c := mk()
	for k, inv := range cs.FnInvs {
		t, err := c.EvalBool(inv.E)
		if err != nil {
			p.specError("iterator invariant of "+key, inv, err)
			continue
		}
		lab := inv.Label
		if lab == "" {
			lab = fmt.Sprint(k + 1)
		}
		p.oblige("iter.inv."+lab, site, inv.Src, t)
		p.assume(t)
	}
	// also the callback's plain preconditions (they may not mention its parameters)
	for k, r := range cs.Requires {
		t, err := c.EvalBool(r.E)
		if err != nil {
			continue // mentions the callback's parameters: checked in the closure's own verification context only
		}
		p.oblige(fmt.Sprintf("iter.pre.%d", k+1), site, r.Src, t)
	}
	// havoc the callback's write set
	var locs []Loc
	for i, m := range cs.Modifies {
		ls, err := safeLocs(c, m)
		if err != nil {
			p.specError("modifies of "+key, Clause{Src: cs.ModSrc[i], File: cs.File, Line: cs.Line}, err)
			continue
		}
		locs = append(locs, ls...)
	}
	p.frameCheck(site, locs)
	// `ensures trans.*` clauses of the callback are reflexive-transitive two-state relations (transitivity is proved
	// on the callback, reflexivity here), so they hold between the states before and after any number of calls
	pre := p.st.clone()
	for _, e := range cs.Ensures {
		if !strings.HasPrefix(e.Label, "trans") {
			continue
		}
		cr := mk()
		cr.st = &pre
		cr.old = &pre
		t, err := cr.EvalBool(e.E)
		if err != nil {
			p.specError("iterator relation of "+key, e, err)
			continue
		}
		p.oblige("iter.refl."+e.Label, site, "reflexive: "+e.Src, t)
	}
	oldNow := p.st.now
	nn := p.fx.fresh("now")
	p.declare(nn, "Int")
	p.assume(fmt.Sprintf("(>= %s %s)", nn, oldNow))
	p.st.now = nn
	heaps := map[string][]Loc{}
	var order []string
	for _, l := range locs {
		if _, ok := heaps[l.Heap]; !ok {
			order = append(order, l.Heap)
		}
		heaps[l.Heap] = append(heaps[l.Heap], l)
	}
	for _, h := range fx.v.writeSet(cfn) {
		if _, ok := heaps[h]; !ok && heapSortTable[h] != "" {
			order = append(order, h)
			heaps[h] = nil
		}
	}
	for _, hn := range order {
		oldH := p.heap(hn)
		newH := p.havocHeap(hn)
		var ds []string
		for _, l := range heaps[hn] {
			ds = append(ds, locCond(l, "a"))
		}
		mod := "false"
		if len(ds) > 0 {
			mod = "(or " + strings.Join(ds, " ") + ")"
		}
		p.assume(fmt.Sprintf("(forall ((a Ref)) (! (=> (and (<= (stamp a) %s) (not %s)) (= (select %s a) (select %s a))) :pattern ((select %s a))))", oldNow, mod, newH, oldH, newH))
	}
	c2 := mk()
	for _, inv := range cs.FnInvs {
		p.assumeClause(c2, inv, "iterator invariant of "+key)
	}
	for _, e := range cs.Ensures {
		if strings.HasPrefix(e.Label, "trans") {
			c3 := mk()
			c3.old = &pre
			p.assumeClause(c3, e, "iterator relation of "+key)
		}
	}
	env.assumptions["iterator rule: "+shortKey(key)+" is called any number of times; its invariants are preserved (verified on the closure)"] = true
}
