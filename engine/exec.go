package main

// Symbolic execution of go/ssa functions into SMT scripts: one script per acyclic path between cut points
// (function entry, loop heads, exits). See DESIGN.md section 2 and Appendix A.

import (
	"fmt"
	"go/constant"
	"go/token"
	"go/types"
	"sort"
	"strings"

	"golang.org/x/tools/go/ssa"
)

type Val struct {
	T     string
	Ty    types.Type
	Tuple []Val
}

type Oblig struct {
	Name    string // stable: <pkg>.<func>.<kind>[@site]
	Fn      string
	Kind    string
	Clause  string
	Formula string
	Trace   string
	Cover   bool // vacuity cover: must NOT be unsat
	Site    string
	Progress bool
	NoAssume bool // not proved: later obligations on the path must not assume it
}

type Item struct {
	Text string // SMT commands (declarations / asserts); empty for obligations
	Ob   *Oblig
}

type State struct {
	epoch     string
	epochNow  string
	heaps     map[string]string
	now       string
	loopEpoch bool
	prev      *State // state before a havoc-everything call: ghost locations keep their value
	prevExcept map[string][]string // ... except these ghost addresses (heap -> addresses), which the callee's contract lists
}

func (s State) clone() State {
	h := make(map[string]string, len(s.heaps))
	for k, v := range s.heaps {
		h[k] = v
	}
	s.heaps = h
	return s
}

type deferRec struct {
	instr *ssa.Defer
	args  []Val
	fnVal Val
}

type Path struct {
	lastRet Val // result of the call whose `after` site ghosts are being applied (bound to `ret`)
	fx      *FnCtx
	items   []Item
	vals    map[ssa.Value]Val
	st      State
	entry   State
	trace   []int
	defers  []deferRec
	emitted map[string]bool
	vars    map[string]Val // spec-visible names (params, results)
	panicking bool
	pval      string
	dead      bool
	startLoop *ssa.BasicBlock
	quiet     bool
	usedMem   bool
	closures  map[string]*ssa.MakeClosure
	dec0      string
	lastAppend *appendInfo
	preserved *State
	defers0   int
	outerHead  *ssa.BasicBlock
	outerVars  map[string]Val
	outerState State
	outerDec0  string
	loopStart map[string]Val
	loopStartState State
}

type FnCtx struct {
	refine    *refineInfo
	env       *Env
	fn        *ssa.Function
	spec      *FuncSpec
	key       string // qualified key
	short     string // display name: pkgname.Func
	loopHeads map[*ssa.BasicBlock]int
	loopList  []*ssa.BasicBlock
	scripts   []*Script
	nfresh    int
	siteCount map[string]int
	siteName  map[ssa.Instruction]string
	errors    []string
	npaths    int
	maxPaths  int
	mayWrite  map[string]bool
	modAll    bool
	v         *Verifier
	allocs    []*ssa.Alloc
	wroteAll  bool
	writesAll bool
	guardSeen bool
	selectSeen map[string]bool
	recording bool
	dry       bool
	names     map[string]int
	dbg       map[string]ssa.Value
}

type Script struct {
	Fn    string
	Items []Item
	Trace string
}

func (fx *FnCtx) fresh(prefix string) string {
	fx.nfresh++
	return fmt.Sprintf("%s!%d", sanitize(prefix), fx.nfresh)
}

func (p *Path) fork() *Path {
	q := *p
	q.items = append([]Item(nil), p.items...)
	q.vals = make(map[ssa.Value]Val, len(p.vals))
	for k, v := range p.vals {
		q.vals[k] = v
	}
	q.st = p.st.clone()
	q.trace = append([]int(nil), p.trace...)
	q.defers = append([]deferRec(nil), p.defers...)
	q.emitted = make(map[string]bool, len(p.emitted))
	for k, v := range p.emitted {
		q.emitted[k] = v
	}
	q.vars = make(map[string]Val, len(p.vars))
	for k, v := range p.vars {
		q.vars[k] = v
	}
	return &q
}

func (p *Path) emit(text string) { p.items = append(p.items, Item{Text: text}) }
func (p *Path) assume(f string)  { p.emit("(assert " + f + ")") }
func (p *Path) declare(name, sort string) {
	p.emit(fmt.Sprintf("(declare-const %s %s)", name, sort))
}

func (p *Path) traceStr() string {
	var sb strings.Builder
	for i, b := range p.trace {
		if i > 0 {
			sb.WriteByte('>')
		}
		fmt.Fprintf(&sb, "%d", b)
	}
	return sb.String()
}

func (p *Path) oblige(kind, site, clause, formula string) {
	if p.quiet {
		return
	}
	name := p.fx.short + "." + kind
	if site != "" {
		name += "@" + site
	}
	p.items = append(p.items, Item{Ob: &Oblig{Name: name, Fn: p.fx.short, Kind: kind, Clause: clause, Formula: formula, Trace: p.traceStr(), Site: site}})
}

func (p *Path) cover(kind, site string) {
	name := p.fx.short + ".cover." + kind
	if site != "" && kind != "return" {
		name += "@" + site
	}
	// return covers are aggregated per function: some exit must be reachable under the assumed contracts; an
	// individual return may be legitimately dead (e.g. an error branch a callee's contract excludes)
	p.items = append(p.items, Item{Ob: &Oblig{Name: name, Fn: p.fx.short, Kind: "cover", Formula: "false", Trace: p.traceStr(), Cover: true, Site: site}})
}

func (p *Path) finish() {
	p.fx.scripts = append(p.fx.scripts, &Script{Fn: p.fx.short, Items: p.items, Trace: p.traceStr()})
}

func (p *Path) unsupported(what string, instr ssa.Instruction) {
	pos := ""
	if instr != nil {
		pos = p.fx.env.prog.Fset.Position(instr.Pos()).String()
	}
	p.oblige("unsupported", sanitize(what), what+" "+pos, "false")
}

// ---------- heaps ----------

func (p *Path) heap(name string) string { return p.heapIn(&p.st, name) }

func (p *Path) heapIn(st *State, name string) string {
	if t, ok := st.heaps[name]; ok {
		return t
	}
	if st.loopEpoch {
		fx := p.fx
		if !fx.modAll && !fx.writesAll && !fx.mayWrite[name] {
			// the function never writes this heap: at the loop head it is still the entry heap
			return p.heapIn(&p.entry, name)
		}
		t := name + "_" + st.epoch
		first := !p.emitted["heap:"+t]
		p.declHeap(t, name, st.epochNow)
		if first {
			p.loopFrame(name, t)
		}
		return t
	}
	t := name + "_" + st.epoch
	first := !p.emitted["heap:"+t]
	p.declHeap(t, name, st.epochNow)
	if first && st.prev != nil && strings.HasPrefix(name, "Mem_") {
		// arbitrary code cannot touch ghost state
		prevH := p.heapIn(st.prev, name)
		exc := ""
		for _, a := range st.prevExcept[name] {
			exc += fmt.Sprintf(" (not (= a %s))", a)
		}
		p.assume(fmt.Sprintf("(forall ((a Ref)) (! (=> (and (or (= (ftag a) (- 4)) (>= (ftag a) 1000000))%s) (= (select %s a) (select %s a))) :pattern ((select %s a))))", exc, t, prevH, t))
	}
	return t
}

func (p *Path) baseHeap(name, epoch, now string) string {
	t := name + "_" + epoch
	p.declHeap(t, name, now)
	return t
}

// declHeap declares a heap version constant together with its well-formedness axioms relative to `now`.
func (p *Path) declHeap(t, name, now string) {
	if p.emitted["heap:"+t] {
		return
	}
	p.emitted["heap:"+t] = true
	srt := heapSortTable[name]
	if srt == "" {
		panic("unknown heap " + name)
	}
	p.fx.env.ensureHeapSort(name)
	p.declare(t, srt)
	switch {
	case strings.HasPrefix(name, "Mem_"):
		es := strings.TrimSuffix(strings.TrimPrefix(srt, "(Array Ref "), ")")
		zero := ""
		switch es {
		case "Int":
			zero = "0"
		case "Bool":
			zero = "false"
		case "Str":
			zero = "str_empty"
		case "Ref":
			zero = "nil"
		case "Slice":
			zero = "(mk_slice nil 0 0 0)"
		case "Iface":
			zero = "iface_nil"
		case "F64":
			zero = "f64_zero"
		}
		if zero != "" {
			p.assume(fmt.Sprintf("(forall ((a Ref)) (! (=> (> (stamp a) %s) (= (select %s a) %s)) :pattern ((select %s a))))", now, t, zero, t))
		}
		switch es {
		case "Ref":
			// program pointers are allocated and never point at ghost variables
			p.assume(fmt.Sprintf("(forall ((a Ref)) (! (and (<= (stamp (select %s a)) %s) (not (= (ftag (select %s a)) (- 4))) (< (ftag (select %s a)) 1000000)) :pattern ((select %s a))))", t, now, t, t, t))
		case "Slice":
			p.assume(fmt.Sprintf("(forall ((a Ref)) (! (and (<= (stamp (sl.arr (select %s a))) %s) (<= 0 (sl.off (select %s a))) (<= 0 (sl.len (select %s a))) (<= (sl.len (select %s a)) (sl.cap (select %s a))) (<= (sl.cap (select %s a)) 72057594037927936)) :pattern ((select %s a))))", t, now, t, t, t, t, t, t))
		case "Iface":
			p.assume(fmt.Sprintf("(forall ((a Ref)) (! (<= (stamp (iface_ref (select %s a))) %s) :pattern ((select %s a))))", t, now, t))
		}
	case strings.HasPrefix(name, "MapHas_"):
		ks := mapKeySort(srt)
		p.assume(fmt.Sprintf("(forall ((m Ref) (k %s)) (! (=> (> (stamp m) %s) (not (select (select %s m) k))) :pattern ((select (select %s m) k))))", ks, now, t, t))
		p.assume(fmt.Sprintf("(forall ((k %s)) (! (not (select (select %s nil) k)) :pattern ((select (select %s nil) k))))", ks, t, t))
	case strings.HasPrefix(name, "MapVal_"):
		ks := mapKeySort(srt)
		if strings.HasSuffix(srt, " Ref)))") {
			p.assume(fmt.Sprintf("(forall ((m Ref) (k %s)) (! (<= (stamp (select (select %s m) k)) %s) :pattern ((select (select %s m) k))))", ks, t, now, t))
		}
	}
}

func mapKeySort(heapSort string) string {
	// (Array Ref (Array K V))
	s := strings.TrimPrefix(heapSort, "(Array Ref (Array ")
	// K may be parenthesised; we only use atomic key sorts
	f := strings.Fields(s)
	return f[0]
}

func (p *Path) setHeap(name, term string) {
	p.fx.mayWrite[name] = true
	v := p.fx.fresh(name)
	p.emitted["heap:"+v] = true
	p.fx.env.ensureHeapSort(name)
	p.declare(v, heapSortTable[name])
	p.assume(fmt.Sprintf("(= %s %s)", v, term))
	p.st.heaps[name] = v
}

// havocHeap introduces a fresh version of a heap; WF axioms are relative to the (new) current now.
func (p *Path) havocHeap(name string) string {
	p.fx.mayWrite[name] = true
	v := p.fx.fresh(name)
	p.declHeap(v, name, p.st.now)
	p.st.heaps[name] = v
	return v
}

// ---------- values ----------

func (p *Path) val(v ssa.Value) Val {
	if x, ok := p.vals[v]; ok {
		return x
	}
	env := p.fx.env
	switch c := v.(type) {
	case *ssa.Const:
		return p.constVal(c)
	case *ssa.Global:
		t := "glob_" + sanitize(c.Pkg.Pkg.Name()+"."+c.Name())
		env.decl("glob:"+t, fmt.Sprintf("(declare-const %s Ref)\n(assert (and (not (= %s nil)) (= (stamp %s) 0) (= (ftag %s) (- 2)) (= (iidx %s) %d)))", t, t, t, t, t, len(env.declared)))
		return Val{T: t, Ty: c.Type()}
	case *ssa.Function:
		t := "func_" + sanitize(c.String())
		env.decl("func:"+t, fmt.Sprintf("(declare-const %s Ref)\n(assert (and (not (= %s nil)) (= (stamp %s) 0) (= (ftag %s) (- 3)) (= (iidx %s) %d)))", t, t, t, t, t, len(env.declared)))
		return Val{T: t, Ty: c.Type()}
	case *ssa.Builtin:
		return Val{T: "builtin_" + c.Name(), Ty: c.Type()}
	}
	// value defined outside this fragment
	return p.outside(v)
}

// outside: SSA value defined before the cut point this fragment starts at. It gets a constant, with its defining
// equation when the definition is pure (does not read memory).
func (p *Path) outside(v ssa.Value) Val {
	name := "v_" + sanitize(v.Name())
	if _, isTuple := v.Type().(*types.Tuple); isTuple {
		tup := v.Type().(*types.Tuple)
		var vs []Val
		for i := 0; i < tup.Len(); i++ {
			n := fmt.Sprintf("%s_%d", name, i)
			p.declare(n, p.fx.env.sortOf(tup.At(i).Type()))
			p.assumeWF(n, tup.At(i).Type())
			vs = append(vs, Val{T: n, Ty: tup.At(i).Type()})
		}
		r := Val{Tuple: vs, Ty: v.Type()}
		p.vals[v] = r
		return r
	}
	srt := p.fx.env.sortOf(v.Type())
	p.declare(name, srt)
	r := Val{T: name, Ty: v.Type()}
	p.vals[v] = r
	p.assumeWF(name, v.Type())
	if instr, ok := v.(ssa.Instruction); ok {
		if def, ok := p.pureDef(instr); ok {
			p.assume(fmt.Sprintf("(= %s %s)", name, def))
		} else if ld, ok := instr.(*ssa.UnOp); ok && ld.Op == token.MUL && isScalar(ld.Type()) && p.fx.spec != nil && !p.fx.spec.ModAll && !p.fx.modAll {
			// a load from a location that existed at entry and is outside the modifies clause reads the entry value
			// (function-level frame, proved at every write)
			hn := p.fx.env.memHeap(ld.Type())
			addr := p.val(ld.X).T
			p.assume(fmt.Sprintf("(=> (and (<= (stamp %s) now_0) (not %s)) (= %s (select %s %s)))", addr, p.modCond(hn, addr), name, p.heapIn(&p.entry, hn), addr))
		}
		if ld, ok := instr.(*ssa.UnOp); ok && ld.Op == token.MUL {
			// a load from a captured variable that is assigned exactly once (before the load) reads that value
			if a, ok := ld.X.(*ssa.Alloc); ok {
				if st := writeOnceStore(a); st != nil && instrBefore(st, ld) {
					p.assume(fmt.Sprintf("(= %s %s)", name, p.val(st.Val).T))
				}
			}
		}
		if a, ok := v.(*ssa.Alloc); ok {
			tag := "0"
			if isStackCell(a) {
				tag = "(- 5)"
			}
			p.assume(fmt.Sprintf("(and (not (= %s nil)) (> (stamp %s) %s) (<= (stamp %s) %s) (= (ftag %s) %s))", name, name, p.entry.now, name, p.st.epochNow, name, tag))
			// distinct from other allocation sites of this function
			for i, o := range p.fx.allocs {
				if o == a {
					p.assume(fmt.Sprintf("(= (iidx %s) %d)", name, i))
				}
			}
		}
	}
	return r
}

// pureDef re-derives the defining term of a memory-independent instruction.
func (p *Path) pureDef(instr ssa.Instruction) (string, bool) {
	switch i := instr.(type) {
	case *ssa.BinOp:
		q := p.sub()
		r := q.binop(i, true)
		if q.usedMem {
			return "", false
		}
		p.absorb(q)
		return r.T, true
	case *ssa.UnOp:
		if i.Op == token.ARROW {
			return "", false
		}
		if i.Op == token.MUL {
			// a load from a heap this function never writes reads the entry heap
			t := i.Type()
			if !isScalar(t) {
				return "", false
			}
			hn := p.fx.env.memHeap(t)
			if p.fx.modAll || p.fx.writesAll || p.fx.mayWrite[hn] {
				return "", false
			}
			return fmt.Sprintf("(select %s %s)", p.heapIn(&p.entry, hn), p.val(i.X).T), true
		}
		q := p.sub()
		r := q.unop(i, true)
		p.absorb(q)
		return r.T, true
	case *ssa.Call:
		if b, ok := i.Call.Value.(*ssa.Builtin); ok && (b.Name() == "len" || b.Name() == "cap") {
			x := p.val(i.Call.Args[0])
			switch x.Ty.Underlying().(type) {
			case *types.Basic:
				return "(slen " + x.T + ")", true
			case *types.Slice:
				if b.Name() == "len" {
					return "(sl.len " + x.T + ")", true
				}
				return "(sl.cap " + x.T + ")", true
			}
		}
	case *ssa.FieldAddr:
		x := p.val(i.X)
		st := i.X.Type().Underlying().(*types.Pointer).Elem()
		return fmt.Sprintf("(%s %s)", p.fx.env.fieldFn(st, i.Field), x.T), true
	case *ssa.IndexAddr:
		x := p.val(i.X)
		ix := p.val(i.Index)
		switch i.X.Type().Underlying().(type) {
		case *types.Slice:
			return elemAddr(x.T, ix.T), true
		case *types.Pointer:
			return fmt.Sprintf("(idx %s %s)", x.T, ix.T), true
		}
	case *ssa.ChangeType:
		return p.val(i.X).T, true
	case *ssa.Extract:
		t := p.val(i.Tuple)
		if len(t.Tuple) > i.Index {
			return t.Tuple[i.Index].T, true
		}
	case *ssa.Convert:
		q := p.sub()
		r, ok := q.convert(i)
		if ok && !q.usedMem {
			p.absorb(q)
			return r.T, true
		}
	case *ssa.Slice:
		// slicing a pointer to an array does not read memory: the slice value is a function of the pointer and bounds
		if pt, ok := i.X.Type().Underlying().(*types.Pointer); ok {
			if at, ok := pt.Elem().Underlying().(*types.Array); ok {
				get := func(v ssa.Value, def string) string {
					if v == nil {
						return def
					}
					return p.val(v).T
				}
				n := fmt.Sprint(at.Len())
				lo, hi, mx := get(i.Low, "0"), get(i.High, n), get(i.Max, n)
				return fmt.Sprintf("(mk_slice %s %s (- %s %s) (- %s %s))", p.val(i.X).T, lo, hi, lo, mx, lo), true
			}
		}
		if _, isStr := i.X.Type().Underlying().(*types.Basic); isStr {
			x := p.val(i.X)
			lo, hi := "0", "(slen "+x.T+")"
			if i.Low != nil {
				lo = p.val(i.Low).T
			}
			if i.High != nil {
				hi = p.val(i.High).T
			}
			return fmt.Sprintf("(ssub %s %s %s)", x.T, lo, hi), true
		}
	}
	return "", false
}

// sub creates a scratch path that shares value bindings but records no obligations.

func (p *Path) sub() *Path {
	q := *p
	q.items = nil
	q.quiet = true
	q.usedMem = false
	return &q
}

func (p *Path) absorb(q *Path) {
	for _, it := range q.items {
		if it.Ob == nil {
			p.items = append(p.items, it)
		}
	}
}

func (p *Path) constVal(c *ssa.Const) Val {
	env := p.fx.env
	t := c.Type()
	if c.Value == nil {
		return Val{T: env.zeroOf(t), Ty: t}
	}
	switch c.Value.Kind() {
	case constant.Bool:
		return Val{T: fmt.Sprint(constant.BoolVal(c.Value)), Ty: t}
	case constant.Int:
		if env.sortOf(t) == "F64" {
			return Val{T: p.floatConst(c.Value.ExactString()), Ty: t}
		}
		return Val{T: smtInt(c.Value.ExactString()), Ty: t}
	case constant.String:
		return Val{T: env.strLit(constant.StringVal(c.Value)), Ty: t}
	case constant.Float:
		if env.sortOf(t) == "Int" {
			if i, ok := constant.Int64Val(constant.ToInt(c.Value)); ok {
				return Val{T: smtInt(fmt.Sprint(i)), Ty: t}
			}
		}
		return Val{T: p.floatConst(c.Value.ExactString()), Ty: t}
	}
	return Val{T: env.zeroOf(t), Ty: t}
}

func (p *Path) floatConst(s string) string {
	if s == "0" {
		return "f64_zero"
	}
	n := "f64c_" + sanitize(s)
	p.fx.env.decl("f64:"+n, fmt.Sprintf("(declare-const %s F64)", n))
	return n
}

func smtInt(s string) string {
	if strings.HasPrefix(s, "-") {
		return "(- " + s[1:] + ")"
	}
	return s
}

// assumeWF adds the facts Go's type system guarantees for a value of type t that is otherwise unconstrained.
func (p *Path) assumeWF(term string, t types.Type) {
	env := p.fx.env
	switch u := t.Underlying().(type) {
	case *types.Basic:
		if lo, hi, ok := intRange(t); ok {
			p.assume(fmt.Sprintf("(and (<= %s %s) (<= %s %s))", lo, term, term, hi))
		}
	case *types.Pointer, *types.Map, *types.Chan, *types.Signature:
		p.assume(fmt.Sprintf("(and (<= (stamp %s) %s) (not (= (ftag %s) (- 4))) (< (ftag %s) 1000000))", term, p.st.now, term, term))
	case *types.Slice:
		p.assume(fmt.Sprintf("(and (<= (stamp (sl.arr %s)) %s) (<= 0 (sl.off %s)) (<= 0 (sl.len %s)) (<= (sl.len %s) (sl.cap %s)) (<= (sl.cap %s) 72057594037927936) (=> (= (sl.arr %s) nil) (= (sl.cap %s) 0)))", term, p.st.now, term, term, term, term, term, term, term))
	case *types.Interface:
		p.assume(fmt.Sprintf("(<= (stamp (iface_ref %s)) %s)", term, p.st.now))
	case *types.Struct:
		for i := 0; i < u.NumFields(); i++ {
			switch u.Field(i).Type().Underlying().(type) {
			case *types.Basic, *types.Pointer, *types.Slice, *types.Map, *types.Chan, *types.Interface, *types.Struct:
				p.assumeWF(env.structFieldVal(t, term, i), u.Field(i).Type())
			}
		}
	case *types.Array:
		if lo, hi, ok := intRange(u.Elem()); ok {
			p.assume(fmt.Sprintf("(forall ((i Int)) (! (and (<= %s (select %s i)) (<= (select %s i) %s)) :pattern ((select %s i))))", lo, term, term, hi, term))
		}
	}
}

// ---------- memory access ----------

func isScalar(t types.Type) bool {
	switch t.Underlying().(type) {
	case *types.Struct, *types.Array:
		return false
	}
	return true
}

func (p *Path) load(addr string, t types.Type) string {
	return p.loadIn(&p.st, addr, t, true)
}

func (p *Path) loadIn(st *State, addr string, t types.Type, wf bool) string {
	env := p.fx.env
	p.usedMem = true
	switch u := t.Underlying().(type) {
	case *types.Struct:
		if !structIsData(t) {
			h := p.heapIn(st, env.memHeap(t))
			term := fmt.Sprintf("(select %s %s)", h, addr)
			if wf {
				// the exported fields of the value are what the field cells hold
				for i := 0; i < u.NumFields(); i++ {
					if u.Field(i).Exported() {
						fv := p.loadIn(st, fmt.Sprintf("(%s %s)", env.fieldFn(t, i), addr), u.Field(i).Type(), wf)
						p.assume(fmt.Sprintf("(= %s %s)", env.structFieldVal(t, term, i), fv))
					}
				}
			}
			return term
		}
		sn := env.structSort(t)
		if u.NumFields() == 0 {
			return "mk_" + sn
		}
		var fs []string
		for i := 0; i < u.NumFields(); i++ {
			fs = append(fs, p.loadIn(st, fmt.Sprintf("(%s %s)", env.fieldFn(t, i), addr), u.Field(i).Type(), wf))
		}
		return "(mk_" + sn + " " + strings.Join(fs, " ") + ")"
	case *types.Array:
		if u.Len() <= 8 {
			r := env.zeroOf(t)
			for i := int64(0); i < u.Len(); i++ {
				r = fmt.Sprintf("(store %s %d %s)", r, i, p.loadIn(st, fmt.Sprintf("(idx %s %d)", addr, i), u.Elem(), wf))
			}
			return r
		}
		v := p.fx.fresh("arrv")
		p.declare(v, env.sortOf(t))
		if isScalar(u.Elem()) {
			h := p.heapIn(st, env.memHeap(u.Elem()))
			p.assume(fmt.Sprintf("(forall ((i Int)) (! (=> (and (<= 0 i) (< i %d)) (= (select %s i) (select %s (idx %s i)))) :pattern ((select %s i))))", u.Len(), v, h, addr, v))
		}
		return v
	}
	h := p.heapIn(st, env.memHeap(t))
	term := fmt.Sprintf("(select %s %s)", h, addr)
	if wf {
		if lo, hi, ok := intRange(t); ok {
			p.assume(fmt.Sprintf("(and (<= %s %s) (<= %s %s))", lo, term, term, hi))
		}
	}
	return term
}

func (p *Path) store(addr string, t types.Type, v string) {
	env := p.fx.env
	switch u := t.Underlying().(type) {
	case *types.Struct:
		if structIsData(t) {
			for i := 0; i < u.NumFields(); i++ {
				p.store(fmt.Sprintf("(%s %s)", env.fieldFn(t, i), addr), u.Field(i).Type(), env.structFieldVal(t, v, i))
			}
			return
		}
		// opaque struct (a library type with private fields): the value as a whole, and its exported fields, which
		// code outside the library reads through field addresses
		for i := 0; i < u.NumFields(); i++ {
			if u.Field(i).Exported() {
				p.store(fmt.Sprintf("(%s %s)", env.fieldFn(t, i), addr), u.Field(i).Type(), env.structFieldVal(t, v, i))
			}
		}
	case *types.Array:
		if u.Len() <= 8 {
			for i := int64(0); i < u.Len(); i++ {
				p.store(fmt.Sprintf("(idx %s %d)", addr, i), u.Elem(), fmt.Sprintf("(select %s %d)", v, i))
			}
			return
		}
		if isScalar(u.Elem()) {
			hn := env.memHeap(u.Elem())
			old := p.heap(hn)
			nh := p.havocHeapRaw(hn)
			p.assume(fmt.Sprintf("(forall ((a Ref)) (! (= (select %s a) (ite (and (= (ftag a) (- 1)) (= (ibase a) %s) (<= 0 (iidx a)) (< (iidx a) %d)) (select %s (iidx a)) (select %s a))) :pattern ((select %s a))))", nh, addr, u.Len(), v, old, nh))
			return
		}
		p.unsupported("store of large non-scalar array", nil)
		return
	}
	hn := env.memHeap(t)
	p.setHeap(hn, fmt.Sprintf("(store %s %s %s)", p.heap(hn), addr, v))
}

// havocHeapRaw: fresh heap version without WF axioms (caller defines it completely).
func (p *Path) havocHeapRaw(name string) string {
	p.fx.mayWrite[name] = true
	v := p.fx.fresh(name)
	p.emitted["heap:"+v] = true
	p.fx.env.ensureHeapSort(name)
	p.declare(v, heapSortTable[name])
	p.st.heaps[name] = v
	return v
}

// flatLocs expands an address of type t into scalar (heap, addr) locations; arrays become regions.
type Loc struct {
	Heap   string
	Addr   string // single address, or base for region
	Region bool
	Lo, Hi string // region: idx(Addr, k) for lo <= k < hi
	FieldFn string // region of struct elements: the field address function applied to each element address
	Inner   int64  // region of arrays of scalars: inner array length (address idx(idx(base,k),j))
	RowsOf  string // map rows of every map stored in the array at this base address (entry-state heap term in RowsHeap)
	RowsHeap string
	RowsN   int64
	AllTag  int // every address whose field tag is this one (modifies fields(T.f))
	AnyHeap bool // the single address Addr in every scalar memory heap (modifies cell(x))
	Pred    string // every address satisfying this condition (with %ADDR% for the address): modifies region(pred)
	MapRow bool                   // whole map row (Addr is the map ref) in a MapHas/MapVal heap
	All    bool
}

func (p *Path) flatLocs(addr string, t types.Type) []Loc {
	env := p.fx.env
	switch u := t.Underlying().(type) {
	case *types.Struct:
		if structIsData(t) {
			var out []Loc
			for i := 0; i < u.NumFields(); i++ {
				out = append(out, p.flatLocs(fmt.Sprintf("(%s %s)", env.fieldFn(t, i), addr), u.Field(i).Type())...)
			}
			return out
		}
		out := []Loc{{Heap: env.memHeap(t), Addr: addr}}
		for i := 0; i < u.NumFields(); i++ {
			if u.Field(i).Exported() {
				out = append(out, p.flatLocs(fmt.Sprintf("(%s %s)", env.fieldFn(t, i), addr), u.Field(i).Type())...)
			}
		}
		return out
	case *types.Array:
		return p.regionLocs(addr, "0", fmt.Sprint(u.Len()), u.Elem())
	}
	return []Loc{{Heap: env.memHeap(t), Addr: addr}}
}

func (p *Path) regionLocs(base, lo, hi string, elem types.Type) []Loc {
	env := p.fx.env
	_, elemIsStruct := elem.Underlying().(*types.Struct)
	if isScalar(elem) || (elemIsStruct && !structIsData(elem)) {
		return []Loc{{Heap: env.memHeap(elem), Addr: base, Region: true, Lo: lo, Hi: hi}}
	}
	// region of structs: each scalar field of each element
	var out []Loc
	switch u := elem.Underlying().(type) {
	case *types.Struct:
		for i := 0; i < u.NumFields(); i++ {
			ft := u.Field(i).Type()
			if !isScalar(ft) && structIsData(ft) {
				p.unsupported("region of nested aggregates", nil)
				continue
			}
			fn := env.fieldFn(elem, i)
			out = append(out, Loc{Heap: env.memHeap(ft), Addr: base, Region: true, Lo: lo, Hi: hi, FieldFn: fn})
		}
	case *types.Array:
		if isScalar(u.Elem()) {
			out = append(out, Loc{Heap: env.memHeap(u.Elem()), Addr: base, Region: true, Lo: lo, Hi: hi, Inner: u.Len()})
		} else {
			p.unsupported("region of arrays of aggregates", nil)
		}
	}
	return out
}

// ---------- function setup ----------

func sortedBlocks(m map[*ssa.BasicBlock]bool) []*ssa.BasicBlock {
	var out []*ssa.BasicBlock
	for b := range m {
		out = append(out, b)
	}
	sort.Slice(out, func(i, j int) bool { return out[i].Index < out[j].Index })
	return out
}

func findLoopHeads(fn *ssa.Function) []*ssa.BasicBlock {
	heads := map[*ssa.BasicBlock]bool{}
	for _, b := range fn.Blocks {
		for _, s := range b.Succs {
			if s.Dominates(b) {
				heads[s] = true
			}
		}
	}
	return sortedBlocks(heads)
}

// instrBefore: instruction a is executed before b on every path reaching b (same block and earlier, or a's block
// strictly dominates b's).
func instrBefore(a, b ssa.Instruction) bool {
	if a.Block() == b.Block() {
		for _, in := range a.Block().Instrs {
			if in == a {
				return true
			}
			if in == b {
				return false
			}
		}
		return false
	}
	return a.Block().Dominates(b.Block())
}
