package main

// const-global: package-level variables the contracts treat as constants. Their initial value is read from the
// initialiser's syntax on every run and asserted about the entry heap; the obligation `const-global:<name>` checks
// that no instruction outside the package initialiser stores to them or lets their address escape.

import (
	"fmt"
	"go/ast"
	"go/constant"
	"go/types"
	"strings"

	"golang.org/x/tools/go/packages"
	"golang.org/x/tools/go/ssa"
)

func (v *Verifier) findPackage(path string) *packages.Package {
	var found *packages.Package
	packages.Visit(v.pkgs, nil, func(p *packages.Package) {
		if p.PkgPath == path {
			found = p
		}
	})
	return found
}

// constGlobalFacts emits facts about the entry heap for every const-global of the function's package.
func (p *Path) constGlobalFacts() {
	fx := p.fx
	pkg := fx.pkgTypes()
	if pkg == nil {
		return
	}
	env := fx.env
	for key := range env.specs.Consts {
		if !strings.HasPrefix(key, pkg.Path()+".") {
			continue
		}
		name := strings.TrimPrefix(key, pkg.Path()+".")
		sp := env.pkgs[pkg.Path()]
		g, ok := sp.Members[name].(*ssa.Global)
		if !ok {
			fx.errors = append(fx.errors, "const-global "+name+": no such global")
			continue
		}
		pp := fx.v.findPackage(pkg.Path())
		if pp == nil {
			continue
		}
		var lit *ast.CompositeLit
		for _, f := range pp.Syntax {
			for _, d := range f.Decls {
				gd, ok := d.(*ast.GenDecl)
				if !ok {
					continue
				}
				for _, s := range gd.Specs {
					vs, ok := s.(*ast.ValueSpec)
					if !ok {
						continue
					}
					for i, n := range vs.Names {
						if n.Name == name && i < len(vs.Values) {
							if cl, ok := vs.Values[i].(*ast.CompositeLit); ok {
								lit = cl
							}
						}
					}
				}
			}
		}
		if lit == nil {
			fx.errors = append(fx.errors, "const-global "+name+": initialiser is not a composite literal")
			p.oblige("const-global", name, "initialiser of "+name+" is a composite literal of constants", "false")
			continue
		}
		ga := p.val(g).T
		gt := g.Type().Underlying().(*types.Pointer).Elem()
		cval := func(e ast.Expr) (constant.Value, bool) {
			tv, ok := pp.TypesInfo.Types[e]
			if !ok || tv.Value == nil {
				return nil, false
			}
			return tv.Value, true
		}
		term := func(cv constant.Value, t types.Type) string {
			return constToVal(env, cv, t).T
		}
		bad := func() {
			p.oblige("const-global", name, "initialiser of "+name+" consists of constants", "false")
		}
		st := &p.entry
		switch u := gt.Underlying().(type) {
		case *types.Map:
			hh, hv := env.mapHeaps(u)
			m := p.loadIn(st, ga, gt, false)
			H, V := p.heapIn(st, hh), p.heapIn(st, hv)
			p.assume(fmt.Sprintf("(not (= %s nil))", m))
			var keys []string
			for _, el := range lit.Elts {
				kv, ok := el.(*ast.KeyValueExpr)
				if !ok {
					bad()
					continue
				}
				kc, ok1 := cval(kv.Key)
				vc, ok2 := cval(kv.Value)
				if !ok1 || !ok2 {
					bad()
					continue
				}
				kt, vt := term(kc, u.Key()), term(vc, u.Elem())
				keys = append(keys, fmt.Sprintf("(= k %s)", kt))
				p.assume(fmt.Sprintf("(and (select (select %s %s) %s) (= (select (select %s %s) %s) %s))", H, m, kt, V, m, kt, vt))
			}
			ks := env.sortOf(u.Key())
			p.assume(fmt.Sprintf("(forall ((k %s)) (! (=> (select (select %s %s) k) (or %s)) :pattern ((select (select %s %s) k))))", ks, H, m, strings.Join(keys, " "), H, m))
		case *types.Array:
			hn := env.memHeap(u.Elem())
			H := p.heapIn(st, hn)
			seen := map[int64]bool{}
			idx := int64(0)
			for _, el := range lit.Elts {
				val := el
				if kv, ok := el.(*ast.KeyValueExpr); ok {
					kc, ok := cval(kv.Key)
					if !ok {
						bad()
						continue
					}
					idx, _ = constant.Int64Val(constant.ToInt(kc))
					val = kv.Value
				}
				vc, ok := cval(val)
				if !ok {
					bad()
					continue
				}
				p.assume(fmt.Sprintf("(= (select %s (idx %s %d)) %s)", H, ga, idx, term(vc, u.Elem())))
				seen[idx] = true
				idx++
			}
			for i := int64(0); i < u.Len(); i++ {
				if !seen[i] {
					p.assume(fmt.Sprintf("(= (select %s (idx %s %d)) %s)", H, ga, i, env.zeroOf(u.Elem())))
				}
			}
		case *types.Slice:
			s := p.loadIn(st, ga, gt, false)
			hn := env.memHeap(u.Elem())
			H := p.heapIn(st, hn)
			p.assume(fmt.Sprintf("(and (= (sl.len %s) %d) (>= (sl.cap %s) %d) (not (= (sl.arr %s) nil)))", s, len(lit.Elts), s, len(lit.Elts), s))
			for i, el := range lit.Elts {
				vc, ok := cval(el)
				if !ok {
					bad()
					continue
				}
				p.assume(fmt.Sprintf("(= (select %s %s) %s)", H, elemAddr(s, fmt.Sprint(i)), term(vc, u.Elem())))
			}
		default:
			bad()
		}
		// no writer outside init
		if w := globalWriters(sp, g); len(w) > 0 {
			p.oblige("const-global", name, name+" is written or escapes outside the package initialiser: "+strings.Join(w, ", "), "false")
		} else {
			p.oblige("const-global", name, name+" has no writer outside the package initialiser", "true")
		}
		env.assumptions["const-global values of "+pkg.Name()+"."+name+" read from the initialiser syntax"] = true
	}
}

func globalWriters(sp *ssa.Package, g *ssa.Global) []string {
	var out []string
	var visit func(fn *ssa.Function)
	visit = func(fn *ssa.Function) {
		if fn.Name() == "init" && fn.Parent() == nil {
			return
		}
		for _, b := range fn.Blocks {
			for _, in := range b.Instrs {
				var ops []*ssa.Value
				ops = in.Operands(ops)
				uses := false
				for _, o := range ops {
					if *o == g {
						uses = true
					}
				}
				if !uses {
					continue
				}
				switch i := in.(type) {
				case *ssa.UnOp: // load
				case *ssa.IndexAddr:
					// address of an element: every use must be a load
					for _, r := range *i.Referrers() {
						if u, ok := r.(*ssa.UnOp); !ok || u.Op.String() != "*" {
							if _, isDbg := r.(*ssa.DebugRef); !isDbg {
								out = append(out, fn.Name())
							}
						}
					}
				case *ssa.DebugRef:
				default:
					out = append(out, fn.Name())
				}
			}
		}
		for _, a := range fn.AnonFuncs {
			visit(a)
		}
	}
	for _, m := range sp.Members {
		if fn, ok := m.(*ssa.Function); ok {
			visit(fn)
		}
		if t, ok := m.(*ssa.Type); ok {
			for _, recv := range []types.Type{t.Type(), types.NewPointer(t.Type())} {
				ms := sp.Prog.MethodSets.MethodSet(recv)
				for i := 0; i < ms.Len(); i++ {
					if fn := sp.Prog.MethodValue(ms.At(i)); fn != nil && fn.Pkg == sp {
						visit(fn)
					}
				}
			}
		}
	}
	return out
}
