package main

// Replay: a failed obligation is written to /verif/replays/<id>/<obligation>.json. When the property has a replay
// harness (config/replay/<id>_test.go.tmpl), the candidate model's inputs are handed to it and it is run against
// the real code with `go test -overlay`.

import (
	"encoding/json"
	"fmt"
	"os"
	"os/exec"
	"path/filepath"
	"regexp"
	"strings"
	"time"
)

type ReplayFile struct {
	Property    string            `json:"property"`
	Obligation  string            `json:"obligation"`
	Function    string            `json:"function"`
	Kind        string            `json:"kind"`
	Clause      string            `json:"clause"`
	Status      string            `json:"status"`
	Trace       string            `json:"trace,omitempty"`
	Answers     map[string]string `json:"solver_answers,omitempty"`
	Model       map[string]string `json:"model_inputs,omitempty"`
	RawModel    string            `json:"solver_output,omitempty"`
	Formula     string            `json:"negated_goal,omitempty"`
	Harness     string            `json:"harness,omitempty"`
	TestOutput  string            `json:"test_output,omitempty"`
	Reproduced  bool              `json:"reproduced"`
	Note        string            `json:"note,omitempty"`
}

var reGetVal = regexp.MustCompile(`\((\([a-z.]+ p_[A-Za-z0-9_]+(?: [0-9]+| nil)?\)|p_[A-Za-z0-9_]+) (\(- [0-9]+\)|[0-9]+|true|false)\)`)

// modelInputs extracts the values of the function's inputs from the solver's get-value answer:
// Int/Bool parameters directly; strings as "len" and leading bytes, decoded into p_x = "text".
func modelInputs(model string) map[string]string {
	m := map[string]string{}
	strLen := map[string]int{}
	strBytes := map[string]map[int]int{}
	for _, mm := range reGetVal.FindAllStringSubmatch(model, -1) {
		term, val := mm[1], mm[2]
		val = strings.TrimSuffix(strings.TrimPrefix(val, "(- "), ")")
		if mm[2] != val {
			val = "-" + val
		}
		switch {
		case strings.HasPrefix(term, "(slen "):
			n := strings.TrimSuffix(strings.TrimPrefix(term, "(slen "), ")")
			fmt.Sscanf(val, "%d", new(int))
			var l int
			fmt.Sscanf(val, "%d", &l)
			strLen[n] = l
		case strings.HasPrefix(term, "(sat "):
			var n string
			var i, b int
			fmt.Sscanf(strings.TrimSuffix(strings.TrimPrefix(term, "(sat "), ")"), "%s %d", &n, &i)
			fmt.Sscanf(val, "%d", &b)
			if strBytes[n] == nil {
				strBytes[n] = map[int]int{}
			}
			strBytes[n][i] = b
		default:
			m[term] = val
		}
	}
	for n, l := range strLen {
		if l > 12 {
			m[n+".len"] = fmt.Sprint(l)
			l = 12
		}
		bs := make([]byte, l)
		for i := 0; i < l; i++ {
			bs[i] = byte(strBytes[n][i])
		}
		m[n] = string(bs)
	}
	return m
}

func writeReplay(verif, repo, replays, prop string, cfg *PropCfg, r *ObResult, v *Verifier) string {
	dir := filepath.Join(replays, prop)
	os.MkdirAll(dir, 0755)
	path := filepath.Join(dir, sanitize(r.Name)+".json")
	rf := ReplayFile{Property: prop, Obligation: r.Name, Function: r.Fn, Kind: r.Kind, Clause: r.Clause, Status: r.Status}
	if r.Fail != nil {
		rf.Trace = r.Fail.Trace
		rf.Answers = r.Fail.Answers
		rf.RawModel = r.Fail.Model
		rf.Formula = trunc(r.Fail.Formula, 4000)
		rf.Model = modelInputs(r.Fail.Model)
	}
	if r.Cover {
		rf.Note = "vacuity cover: the assumptions on this path are contradictory, so nothing was proved"
	}
	// harness
	h := filepath.Join(verif, "config", "replay", prop+"_test.go")
	if _, err := os.Stat(h); err == nil && !r.Cover {
		rf.Harness = h
		out, ok := runHarness(verif, repo, prop, h, &rf)
		rf.TestOutput = trunc(out, 8000)
		rf.Reproduced = ok
	} else {
		rf.Note += " no replay harness for this property; obligation failed without a concrete failing input"
	}
	b, _ := json.MarshalIndent(rf, "", " ")
	os.WriteFile(path, b, 0644)
	return path
}

func replayReproduced(path string) bool {
	b, err := os.ReadFile(path)
	if err != nil {
		return false
	}
	var rf ReplayFile
	json.Unmarshal(b, &rf)
	return rf.Reproduced
}

// runHarness runs the property's replay test against the real code. The harness is an in-package _test.go file
// injected with -overlay (nothing is written to /repo). It receives the obligation and model through environment
// variables GOVC_OBLIGATION, GOVC_MODEL (JSON) and must print "REPRODUCED <what>" and fail if it finds a concrete
// violation of the property on the real code.
func runHarness(verif, repo, prop, harness string, rf *ReplayFile) (string, bool) {
	src, err := os.ReadFile(harness)
	if err != nil {
		return err.Error(), false
	}
	// first line: // package-dir: httpd
	pkgDir := ""
	for _, ln := range strings.Split(string(src), "\n") {
		if strings.HasPrefix(ln, "// package-dir:") {
			pkgDir = strings.TrimSpace(strings.TrimPrefix(ln, "// package-dir:"))
			break
		}
	}
	if pkgDir == "" {
		return "harness has no package-dir line", false
	}
	tmp, err := os.MkdirTemp("", "govc-replay-")
	if err != nil {
		return err.Error(), false
	}
	defer os.RemoveAll(tmp)
	tf := filepath.Join(tmp, "zz_govc_replay_test.go")
	os.WriteFile(tf, src, 0644)
	ov := map[string]any{"Replace": map[string]string{filepath.Join(repo, pkgDir, "zz_govc_replay_test.go"): tf}}
	ob, _ := json.Marshal(ov)
	ovf := filepath.Join(tmp, "overlay.json")
	os.WriteFile(ovf, ob, 0644)
	mj, _ := json.Marshal(rf.Model)
	args := []string{"test", "-tags", "verif", "-overlay", ovf, "-vet=off", "-count=1", "-timeout", "120s", "-run", "TestGovcReplay", "./" + pkgDir}
	if strings.Contains(string(src), "// race: on") {
		args = append(args[:1], append([]string{"-race"}, args[1:]...)...)
	}
	cmd := exec.Command("go", args...)
	cmd.Dir = repo
	cmd.Env = append(goEnv(), "GOVC_OBLIGATION="+rf.Obligation, "GOVC_MODEL="+string(mj), "GOVC_KIND="+rf.Kind, "GOCACHE="+filepath.Join(tmp, "gocache"), "GOVC_VERIF="+verif)
	done := make(chan struct{})
	var out []byte
	go func() { out, _ = cmd.CombinedOutput(); close(done) }()
	select {
	case <-done:
	case <-time.After(180 * time.Second):
		if cmd.Process != nil {
			cmd.Process.Kill()
		}
		<-done
	}
	s := string(out)
	if strings.Contains(string(src), "// race: on") && strings.Contains(s, "WARNING: DATA RACE") {
		return "REPRODUCED (race detector): \n" + s, true
	}
	// harnesses of goroutine-based code: a panic that kills the test binary (a worker goroutine died) is the witness
	if strings.Contains(string(src), "// crash: violation") && (strings.Contains(s, "\npanic: ") || strings.HasPrefix(s, "panic: ")) && !strings.Contains(s, "test timed out") {
		return "REPRODUCED (the test binary crashed: a panic escaped on a goroutine of the code under test): \n" + s, true
	}
	if strings.Contains(s, "[build failed]") || strings.Contains(s, "[setup failed]") {
		return "HARNESS-BROKEN (does not build against this tree): \n" + s, false
	}
	return s, strings.Contains(s, "REPRODUCED")
}

func cmdReplay(args []string) int {
	if len(args) < 1 {
		fmt.Fprintln(os.Stderr, "usage: govc replay <file>")
		return 2
	}
	b, err := os.ReadFile(args[0])
	if err != nil {
		fmt.Fprintln(os.Stderr, err)
		return 2
	}
	var rf ReplayFile
	if err := json.Unmarshal(b, &rf); err != nil {
		fmt.Fprintln(os.Stderr, err)
		return 2
	}
	fmt.Printf("property %s obligation %s\nclause: %s\nanswers: %v\nmodel inputs: %v\n", rf.Property, rf.Obligation, rf.Clause, rf.Answers, rf.Model)
	if rf.Harness != "" {
		verif := "/verif"
		out, ok := runHarness(verif, "/repo", rf.Property, rf.Harness, &rf)
		fmt.Println(out)
		if ok {
			fmt.Println("reproduced on the real code")
			return 1
		}
		fmt.Println("not reproduced")
	}
	return 0
}

func cmdSelftest(args []string) int {
	fmt.Fprintln(os.Stderr, "use /verif/selftest/run.sh")
	return 2
}
