package main

// Contract files: /repo/<pkg>/zz_contracts_verif.go (comment-only, `//@` lines) and
// /verif/contracts/std/*.spec (assumed contracts of external functions, same syntax).

import (
	"bufio"
	"fmt"
	"os"
	"regexp"
	"strconv"
	"strings"
)

type Clause struct {
	Label string
	Src   string
	E     Expr
	File  string
	Line  int
}

type LoopSpec struct {
	N         int
	Invs      []Clause
	Steps     []Clause // two-state: x is the value at the start of an iteration, next_x the value for the next
	Exits     []Clause // hold at every return reached from inside the loop body (loop variables = start of iteration)
	Decreases *Clause
}

type SiteGhost struct { // ghost statement anchored at a call site
	Callee string // short callee name
	Ord    int    // ordinal of that callee among calls in the function (1-based); 0 = every
	When   string // "after" | "before"
	Kind   string // "assume" (never used), "assert", "set"
	Target Expr   // for set: location
	Value  Expr
	Src    string
	Label  string
}

type FuncSpec struct {
	Name       string // e.g. "findRoute", "(*Mux).ServeHTTP", "strconv.AppendInt"
	Kind       string // func | functype | iface
	ParamNames []string
	Requires   []Clause
	FnInvs     []Clause // function-level invariants: required at entry, ensured at exit, no old(); used by iterator callers
	Ensures    []Clause
	OnPanic    []Clause // ensures on panic exit
	Guard      *Clause  // iface contracts: the ensures clauses hold for calls whose pre-state satisfies the guard
	Modifies   []Expr
	ModAll     bool // modifies everything (arbitrary user code)
	ModSrc     []string
	Loops      map[int]*LoopSpec
	Ghosts     []SiteGhost
	Inline     bool
	MayPanic   bool // the call may panic (two successors at call sites)
	NoReturn   bool // never returns normally (os.Exit)
	ArithOK    bool // overflow obligations turned into listed assumptions
	NilOK      bool
	Assumed    bool // contract is assumed (external), not verified
	Pure       bool // no heap effect at all, result is a function of args (uf)
	File       string
	Line       int
	Expect     int // expect-obligations >= n
	Attrs      map[string]string
}

type PureDef struct {
	Name   string
	Params []QVar
	Ret    string
	Body   Expr
	Src    string
}

type UFDecl struct {
	Name   string
	Params []string
	Ret    string
}

type GhostField struct{ Type, Field, FType string }
type GhostVar struct{ Name, Type string }

type GuardDecl struct { // shared T.f guarded_by <lockexpr over x> / atomic / immutable
	Type, Field string
	Mode        string // guarded | atomic | immutable
	ReadCond    Expr   // condition over `x` (the object) required for reads
	WriteCond   Expr
	Src         string
}

type PoolInv struct {
	Owner, Field string // Owner "" for package-level pools (Field = global name)
	Pkg          string
	Item, IType  string
	E            Expr
	Src          string
}

// FoldDecl: a fold ghost over append-only byte buffers (DESIGN 2.5 (3)): a pair-of-ints automaton state.
type FoldDecl struct {
	Name         string
	InitK, InitD string // integer literals
	StepK, StepD string // pure functions (k int, d int, c int) int
	Pkg          string
}

// RunLemma: if Q(k, d) and every byte of the run satisfies P then the run leaves (k, d) unchanged. The one-step
// obligation is proved by SMT; the extension to runs of any length is the engine's induction schema (trusted).
type RunLemma struct {
	Fold, Name, Q, P string
	B string // runmove: target set
}

type ChanRole struct {
	Field string              // T.f
	Ops   map[string][]string // send/recv/close -> function names
}

type SyncCall struct{ Iface, Method, In string }

type LockInv struct {
	Owner, Field string
	E            Expr
	Src          string
}

type AxiomDecl struct {
	Name string
	E    Expr
	Src  string
	Pkg  string // package the declaration belongs to ("" = global, std specs)
}

type SpecSet struct {
	Funcs   map[string]*FuncSpec // key: qualified "pkgpath.Name"
	Pures   map[string]*PureDef
	UFs     map[string]*UFDecl
	GFields []GhostField
	GVars   []GhostVar
	Guards  []GuardDecl
	Axioms  []AxiomDecl
	Pools   []PoolInv
	LockInvs []LockInv
	ChanRoles []ChanRole
	Folds     []FoldDecl
	RunLemmas []RunLemma
	FoldLinks [][2]string
	Lemmas    []AxiomDecl // proved once (obligation on the function carrying `attr lemmas`), then available as axioms
	FoldAlias [][2]string // (alias, base): clauses mentioning base's accessors are duplicated for alias
	SyncCalls []SyncCall
	Consts  map[string]string // const-global name -> mode
	Errors  []string
}

func NewSpecSet() *SpecSet {
	return &SpecSet{Funcs: map[string]*FuncSpec{}, Pures: map[string]*PureDef{}, UFs: map[string]*UFDecl{}, Consts: map[string]string{}}
}

var reLabel = regexp.MustCompile(`^([A-Za-z_][A-Za-z0-9_.]*):\s+(.*)$`)

func splitLabel(s string) (string, string) {
	if m := reLabel.FindStringSubmatch(s); m != nil && !strings.HasPrefix(m[2], ":") {
		return m[1], m[2]
	}
	return "", s
}

// splitTop splits s at top-level commas.
func splitTop(s string) []string {
	var out []string
	depth, start := 0, 0
	inStr := byte(0)
	for i := 0; i < len(s); i++ {
		c := s[i]
		if inStr != 0 {
			if c == '\\' {
				i++
			} else if c == inStr {
				inStr = 0
			}
			continue
		}
		switch c {
		case '"', '\'', '`':
			inStr = c
		case '(', '[', '{':
			depth++
		case ')', ']', '}':
			depth--
		case ',':
			if depth == 0 {
				out = append(out, strings.TrimSpace(s[start:i]))
				start = i + 1
			}
		}
	}
	if t := strings.TrimSpace(s[start:]); t != "" {
		out = append(out, t)
	}
	return out
}

// LoadSpecFile reads one contract file. pkgPath qualifies unqualified function names ("" for std specs,
// where names are already qualified).
func (ss *SpecSet) LoadSpecFile(path, pkgPath string, assumed bool) error {
	f, err := os.Open(path)
	if err != nil {
		return err
	}
	defer f.Close()
	sc := bufio.NewScanner(f)
	sc.Buffer(make([]byte, 1<<20), 1<<20)
	var lines []string
	var lnos []int
	ln := 0
	for sc.Scan() {
		ln++
		t := strings.TrimSpace(sc.Text())
		if strings.HasPrefix(t, "//@") {
			t = strings.TrimSpace(t[3:])
		} else if strings.HasSuffix(path, ".spec") {
			if strings.HasPrefix(t, "#") || strings.HasPrefix(t, "//") {
				continue
			}
		} else {
			continue
		}
		if t == "" {
			continue
		}
		if i := strings.Index(t, " // "); i >= 0 && !strings.Contains(t[:i], "\"") {
			t = strings.TrimSpace(t[:i])
		}
		if strings.HasPrefix(t, "|") && len(lines) > 0 {
			lines[len(lines)-1] += " " + strings.TrimSpace(t[1:])
			continue
		}
		lines = append(lines, t)
		lnos = append(lnos, ln)
	}
	var cur *FuncSpec
	var curLoop *LoopSpec
	fail := func(i int, f string, a ...any) {
		ss.Errors = append(ss.Errors, fmt.Sprintf("%s:%d: %s", path, lnos[i], fmt.Sprintf(f, a...)))
	}
	qual := func(n string) string {
		if pkgPath == "" {
			return n
		}
		return pkgPath + "." + n
	}
	mkClause := func(i int, rest string) (Clause, bool) {
		label, src := splitLabel(rest)
		e, err := ParseExpr(src)
		if err != nil {
			fail(i, "%v", err)
			return Clause{}, false
		}
		return Clause{Label: label, Src: src, E: e, File: path, Line: lnos[i]}, true
	}
	for i, t := range lines {
		kw, rest := t, ""
		if j := strings.IndexAny(t, " \t"); j >= 0 {
			kw, rest = t[:j], strings.TrimSpace(t[j+1:])
		}
		switch kw {
		case "func", "functype", "iface":
			name := rest
			var pn []string
			// optional parameter name list: name(a, b, c) — but method names look like (*T).M
			if j := strings.LastIndex(rest, "("); j > 0 && strings.HasSuffix(rest, ")") && !strings.HasPrefix(rest[j:], "(*") {
				name = strings.TrimSpace(rest[:j])
				for _, p := range splitTop(rest[j+1 : len(rest)-1]) {
					pn = append(pn, p)
				}
			}
			cur = &FuncSpec{Name: name, Kind: kw, ParamNames: pn, Loops: map[int]*LoopSpec{}, Assumed: assumed, File: path, Line: lnos[i], Attrs: map[string]string{}}
			curLoop = nil
			key := qual(name)
			if kw != "func" {
				key = kw + ":" + qual(name)
			}
			if _, dup := ss.Funcs[key]; dup {
				fail(i, "duplicate contract for %s", key)
			}
			ss.Funcs[key] = cur
		case "guard":
			if cur == nil {
				fail(i, "guard outside func")
				continue
			}
			if c, ok := mkClause(i, rest); ok {
				cc := c
				cur.Guard = &cc
			}
		case "requires", "ensures", "invariant", "decreases", "onpanic", "step", "exit":
			if cur == nil {
				fail(i, "%s outside func", kw)
				continue
			}
			c, ok := mkClause(i, rest)
			if !ok {
				continue
			}
			switch kw {
			case "requires":
				cur.Requires = append(cur.Requires, c)
			case "ensures":
				cur.Ensures = append(cur.Ensures, c)
			case "onpanic":
				cur.OnPanic = append(cur.OnPanic, c)
			case "invariant":
				if curLoop == nil {
					cur.FnInvs = append(cur.FnInvs, c)
					continue
				}
				curLoop.Invs = append(curLoop.Invs, c)
			case "step", "exit":
				if curLoop == nil {
					fail(i, "%s outside loop", kw)
					continue
				}
				if kw == "step" {
					curLoop.Steps = append(curLoop.Steps, c)
				} else {
					curLoop.Exits = append(curLoop.Exits, c)
				}
			case "decreases":
				if curLoop == nil {
					fail(i, "decreases outside loop")
					continue
				}
				cc := c
				curLoop.Decreases = &cc
			}
		case "modifies":
			if cur == nil {
				fail(i, "modifies outside func")
				continue
			}
			if rest == "nothing" {
				continue
			}
			if rest == "everything" {
				cur.ModAll = true
				continue
			}
			for _, loc := range splitTop(rest) {
				e, err := ParseExpr(loc)
				if err != nil {
					fail(i, "%v", err)
					continue
				}
				cur.Modifies = append(cur.Modifies, e)
				cur.ModSrc = append(cur.ModSrc, loc)
			}
		case "loop":
			if cur == nil {
				fail(i, "loop outside func")
				continue
			}
			n, err := strconv.Atoi(rest)
			if err != nil {
				fail(i, "bad loop ordinal %q", rest)
				continue
			}
			curLoop = &LoopSpec{N: n}
			cur.Loops[n] = curLoop
		case "inline", "mayPanic", "noreturn", "arith-assumed", "nil-assumed", "purefn":
			if cur == nil {
				fail(i, "%s outside func", kw)
				continue
			}
			switch kw {
			case "inline":
				cur.Inline = true
			case "mayPanic":
				cur.MayPanic = true
			case "noreturn":
				cur.NoReturn = true
			case "arith-assumed":
				cur.ArithOK = true
			case "nil-assumed":
				cur.NilOK = true
			case "purefn":
				cur.Pure = true
			}
		case "attr":
			if cur == nil {
				fail(i, "attr outside func")
				continue
			}
			k, v, _ := strings.Cut(rest, " ")
			cur.Attrs[k] = strings.TrimSpace(v)
		case "expect-obligations":
			if cur == nil {
				continue
			}
			n, _ := strconv.Atoi(strings.TrimSpace(strings.TrimPrefix(rest, ">=")))
			cur.Expect = n
		case "ghost":
			// ghost field T.f type | ghost var name type | ghost after call F#k set loc = e | ghost after call F#k assert e
			parts := strings.Fields(rest)
			if len(parts) >= 3 && parts[0] == "field" {
				tn, fn, ok := strings.Cut(parts[1], ".")
				if j := strings.LastIndex(parts[1], "."); j >= 0 {
					tn, fn, ok = parts[1][:j], parts[1][j+1:], true
				}
				if !ok {
					fail(i, "bad ghost field %q", parts[1])
					continue
				}
				ss.GFields = append(ss.GFields, GhostField{Type: tn, Field: fn, FType: strings.Join(parts[2:], "")})
			} else if len(parts) >= 3 && parts[0] == "var" {
				ss.GVars = append(ss.GVars, GhostVar{Name: parts[1], Type: strings.Join(parts[2:], "")})
			} else if len(parts) >= 4 && (parts[0] == "after" || parts[0] == "before") && parts[1] == "call" {
				if cur == nil {
					fail(i, "ghost statement outside func")
					continue
				}
				callee, ordS, _ := strings.Cut(parts[2], "#")
				ord, _ := strconv.Atoi(ordS)
				stmt := strings.TrimSpace(rest[strings.Index(rest, parts[2])+len(parts[2]):])
				g := SiteGhost{Callee: callee, Ord: ord, When: parts[0], Src: stmt}
				if strings.HasPrefix(stmt, "set ") {
					lhs, rhs, ok := strings.Cut(stmt[4:], " = ")
					if !ok {
						fail(i, "bad ghost set %q", stmt)
						continue
					}
					g.Kind = "set"
					var err error
					if g.Target, err = ParseExpr(lhs); err != nil {
						fail(i, "%v", err)
						continue
					}
					if g.Value, err = ParseExpr(rhs); err != nil {
						fail(i, "%v", err)
						continue
					}
				} else if strings.HasPrefix(stmt, "assert ") {
					g.Kind = "assert"
					var err error
					lab, src := splitLabel(stmt[7:])
					g.Label = lab
					g.Src = src
					if g.Value, err = ParseExpr(src); err != nil {
						fail(i, "%v", err)
						continue
					}
				} else {
					fail(i, "bad ghost statement %q", stmt)
					continue
				}
				cur.Ghosts = append(cur.Ghosts, g)
			} else {
				fail(i, "bad ghost declaration %q", rest)
			}
		case "pure":
			// pure name(a T, b U) R = expr
			j := strings.Index(rest, "(")
			k := matchParen(rest, j)
			if j < 0 || k < 0 {
				fail(i, "bad pure decl")
				continue
			}
			name := strings.TrimSpace(rest[:j])
			var params []QVar
			for _, p := range splitTop(rest[j+1 : k]) {
				pn, pt, ok := strings.Cut(p, " ")
				if !ok {
					fail(i, "bad pure param %q", p)
					continue
				}
				params = append(params, QVar{pn, strings.ReplaceAll(pt, " ", "")})
			}
			after := strings.TrimSpace(rest[k+1:])
			ret, body, ok := strings.Cut(after, "=")
			if !ok {
				fail(i, "pure %s needs '= body'", name)
				continue
			}
			e, err := ParseExpr(strings.TrimSpace(body))
			if err != nil {
				fail(i, "%v", err)
				continue
			}
			ss.Pures[name] = &PureDef{Name: name, Params: params, Ret: strings.TrimSpace(ret), Body: e, Src: body}
		case "uf":
			j := strings.Index(rest, "(")
			k := matchParen(rest, j)
			if j < 0 || k < 0 {
				fail(i, "bad uf decl")
				continue
			}
			name := strings.TrimSpace(rest[:j])
			var pts []string
			for _, p := range splitTop(rest[j+1 : k]) {
				pts = append(pts, strings.ReplaceAll(p, " ", ""))
			}
			ss.UFs[name] = &UFDecl{Name: name, Params: pts, Ret: strings.TrimSpace(rest[k+1:])}
		case "axiom":
			label, src := splitLabel(rest)
			e, err := ParseExpr(src)
			if err != nil {
				fail(i, "%v", err)
				continue
			}
			ss.Axioms = append(ss.Axioms, AxiomDecl{Name: label, E: e, Src: src, Pkg: pkgPath})
		case "shared":
			// shared T.f guarded_by <cond over x for write> [reads <cond>] | shared T.f atomic | shared T.f immutable
			parts := strings.SplitN(rest, " ", 3)
			if len(parts) < 2 {
				fail(i, "bad shared decl")
				continue
			}
			j := strings.LastIndex(parts[0], ".")
			if j < 0 {
				fail(i, "bad shared location %q", parts[0])
				continue
			}
			g := GuardDecl{Type: parts[0][:j], Field: parts[0][j+1:], Mode: parts[1], Src: rest}
			if parts[1] == "guarded_by" {
				if len(parts) < 3 {
					fail(i, "guarded_by needs a condition")
					continue
				}
				w, r, hasR := strings.Cut(parts[2], " reads ")
				var err error
				if g.WriteCond, err = ParseExpr(w); err != nil {
					fail(i, "%v", err)
					continue
				}
				g.ReadCond = g.WriteCond
				if hasR {
					if g.ReadCond, err = ParseExpr(r); err != nil {
						fail(i, "%v", err)
						continue
					}
				}
				g.Mode = "guarded"
			}
			ss.Guards = append(ss.Guards, g)
		case "fold":
			// fold name initK initD stepK stepD
			parts := strings.Fields(rest)
			if len(parts) != 5 {
				fail(i, "fold name initK initD stepK stepD")
				continue
			}
			ss.Folds = append(ss.Folds, FoldDecl{Name: parts[0], InitK: parts[1], InitD: parts[2], StepK: parts[3], StepD: parts[4], Pkg: pkgPath})
			for _, sfx := range []string{"K", "D"} {
				ss.UFs[parts[0]+sfx] = &UFDecl{Name: parts[0] + sfx, Params: []string{"[]byte"}, Ret: "int"}
				ss.UFs[parts[0]+"_run"+sfx+"_str"] = &UFDecl{Name: parts[0] + "_run" + sfx + "_str", Params: []string{"int", "int", "string"}, Ret: "int"}
				ss.UFs[parts[0]+"_run"+sfx+"_sl"] = &UFDecl{Name: parts[0] + "_run" + sfx + "_sl", Params: []string{"int", "int", "[]byte"}, Ret: "int"}
			}
		case "runlemma":
			parts := strings.Fields(rest)
			if len(parts) != 4 {
				fail(i, "runlemma fold name Q P")
				continue
			}
			ss.RunLemmas = append(ss.RunLemmas, RunLemma{Fold: parts[0], Name: parts[1], Q: parts[2], P: parts[3]})
		case "runmove":
			// runmove fold name A B P: from a state in A, a non-empty run of P-bytes ends in a state in B
			// (one-step obligations: A && P ==> B after the step; B && P ==> B after the step)
			parts := strings.Fields(rest)
			if len(parts) != 5 {
				fail(i, "runmove fold name A B P")
				continue
			}
			ss.RunLemmas = append(ss.RunLemmas, RunLemma{Fold: parts[0], Name: parts[1], Q: parts[2], B: parts[3], P: parts[4]})
		case "lemma":
			label, src := splitLabel(rest)
			e, err := ParseExpr(src)
			if err != nil {
				fail(i, "%v", err)
				continue
			}
			ss.Lemmas = append(ss.Lemmas, AxiomDecl{Name: label, E: e, Src: src, Pkg: pkgPath})
		case "foldalias":
			parts := strings.Fields(rest)
			if len(parts) != 2 {
				fail(i, "foldalias alias base")
				continue
			}
			ss.FoldAlias = append(ss.FoldAlias, [2]string{parts[0], parts[1]})
		case "foldlink":
			parts := strings.Fields(rest)
			if len(parts) != 2 {
				fail(i, "foldlink fragFold lineFold")
				continue
			}
			ss.FoldLinks = append(ss.FoldLinks, [2]string{parts[0], parts[1]})
		case "chanrole":
			// chanrole T.f send:F,G recv:H close:-
			parts := strings.Fields(rest)
			if len(parts) < 2 {
				fail(i, "bad chanrole")
				continue
			}
			cr := ChanRole{Field: parts[0], Ops: map[string][]string{}}
			for _, p := range parts[1:] {
				op, fns, ok := strings.Cut(p, ":")
				if !ok {
					fail(i, "bad chanrole item %q", p)
					continue
				}
				cr.Ops[op] = nil
				for _, f := range strings.Split(fns, ",") {
					if f != "" && f != "-" {
						cr.Ops[op] = append(cr.Ops[op], f)
					}
				}
			}
			ss.ChanRoles = append(ss.ChanRoles, cr)
		case "syncall":
			// syncall I.M in F
			parts := strings.Fields(rest)
			if len(parts) != 3 || parts[1] != "in" {
				fail(i, "bad syncall")
				continue
			}
			ifc, m, _ := strings.Cut(parts[0], ".")
			ss.SyncCalls = append(ss.SyncCalls, SyncCall{Iface: ifc, Method: m, In: parts[2]})
		case "lockinv":
			// lockinv Owner.field :: expr over x (the owner object): must hold whenever the lock is released
			head, body, ok := strings.Cut(rest, "::")
			o, f, ok2 := strings.Cut(strings.TrimSpace(head), ".")
			if !ok || !ok2 {
				fail(i, "bad lockinv")
				continue
			}
			e, err := ParseExpr(strings.TrimSpace(body))
			if err != nil {
				fail(i, "%v", err)
				continue
			}
			ss.LockInvs = append(ss.LockInvs, LockInv{Owner: o, Field: f, E: e, Src: strings.TrimSpace(body)})
		case "poolinv":
			// poolinv Owner.field item *T :: expr   |   poolinv globalPool item *T :: expr
			head, body, ok := strings.Cut(rest, "::")
			hp := strings.Fields(head)
			if !ok || len(hp) != 3 {
				fail(i, "bad poolinv")
				continue
			}
			e, err := ParseExpr(strings.TrimSpace(body))
			if err != nil {
				fail(i, "%v", err)
				continue
			}
			pi := PoolInv{Field: hp[0], Item: hp[1], IType: hp[2], E: e, Src: strings.TrimSpace(body), Pkg: pkgPath}
			if o, f, ok := strings.Cut(hp[0], "."); ok {
				pi.Owner, pi.Field = o, f
			}
			ss.Pools = append(ss.Pools, pi)
			// per-pool ownership marker: owned_<pool> (owned(x) is the disjunction over all pools)
			ss.GFields = append(ss.GFields, GhostField{Type: "any", Field: "owned_" + pi.Field, FType: "bool"})
		case "const-global":
			for _, n := range strings.Fields(rest) {
				ss.Consts[qual(n)] = "const"
			}
		case "package", "go:build":
		default:
			fail(i, "unknown directive %q", kw)
		}
	}
	ss.applyFoldAliases(path)
	return nil
}

// applyFoldAliases duplicates every clause of the file's function contracts that mentions a base fold's accessors,
// with the alias fold substituted (contracts are polymorphic in folds that share step functions; all fold clauses
// are conditional on that fold's own pre-state, so the copies are harmless where the alias is meaningless).
func (ss *SpecSet) applyFoldAliases(file string) {
	for _, al := range ss.FoldAlias {
		alias, base := al[0], al[1]
		sub := func(src string) (string, bool) {
			if !strings.Contains(src, base+"K(") && !strings.Contains(src, base+"D(") && !strings.Contains(src, base+"_run") {
				return src, false
			}
			r := strings.NewReplacer(base+"K(", alias+"K(", base+"D(", alias+"D(", base+"_run", alias+"_run")
			return r.Replace(src), true
		}
		dup := func(cs []Clause) []Clause {
			out := cs
			for _, c := range cs {
				if strings.HasSuffix(c.Label, "."+alias) || c.File != file {
					continue
				}
				ns, ok := sub(c.Src)
				if !ok {
					continue
				}
				e, err := ParseExpr(ns)
				if err != nil {
					ss.Errors = append(ss.Errors, fmt.Sprintf("%s: foldalias: %v", file, err))
					continue
				}
				lab := c.Label
				if lab == "" {
					lab = "c"
				}
				already := false
				for _, o := range out {
					if o.Src == ns {
						already = true
					}
				}
				if !already {
					out = append(out, Clause{Label: lab + "." + alias, Src: ns, E: e, File: c.File, Line: c.Line})
				}
			}
			return out
		}
		for _, fs := range ss.Funcs {
			if fs.File != file || fs.Attrs["foldpoly"] == "" {
				continue
			}
			fs.Requires = dup(fs.Requires)
			fs.Ensures = dup(fs.Ensures)
			fs.FnInvs = dup(fs.FnInvs)
			for _, l := range fs.Loops {
				l.Invs = dup(l.Invs)
			}
		}
	}
}

func matchParen(s string, open int) int {
	if open < 0 {
		return -1
	}
	depth := 0
	for i := open; i < len(s); i++ {
		switch s[i] {
		case '(':
			depth++
		case ')':
			depth--
			if depth == 0 {
				return i
			}
		}
	}
	return -1
}

func (f *FuncSpec) allRequires() []Clause {
	if len(f.FnInvs) == 0 {
		return f.Requires
	}
	return append(append([]Clause{}, f.Requires...), f.FnInvs...)
}

func (f *FuncSpec) allEnsures() []Clause {
	if len(f.FnInvs) == 0 {
		return f.Ensures
	}
	out := append([]Clause{}, f.Ensures...)
	for _, c := range f.FnInvs {
		if c.Label == "" {
			c.Label = "inv"
		} else {
			c.Label = "inv." + c.Label
		}
		out = append(out, c)
	}
	return out
}
