package main

import (
	"bytes"
	"context"
	"fmt"
	"os"
	"os/exec"
	"path/filepath"
	"sort"
	"strings"
	"sync"
	"time"

	"golang.org/x/tools/go/packages"
	"golang.org/x/tools/go/ssa"
	"golang.org/x/tools/go/ssa/ssautil"
)

type Verifier struct {
	failedOnce map[string]*Failure // obligations that already failed on some path: further instances are not re-solved
	repo    string
	verif   string
	prog    *ssa.Program
	pkgs    []*packages.Package
	ssaPkgs []*ssa.Package
	specs   *SpecSet
	funcs   map[string]*ssa.Function // by spec key
	wsCache map[string][]string
	wsBusy  map[string]bool
	timeout int // seconds per obligation
	tier    string
	seed    int
	jobs    int
	keep    string // directory to keep SMT files in (debug)
	loadS   float64
	mu      sync.Mutex
	solverStats map[string]*SolverStat
}

type SolverStat struct {
	Count   int     `json:"count"`
	TotalMs float64 `json:"total_ms"`
	MaxMs   float64 `json:"max_ms"`
}

func goEnv() []string {
	env := os.Environ()
	env = append(env, "GOFLAGS=-mod=mod", "GOPROXY=off", "GOSUMDB=off", "GOTOOLCHAIN=local")
	return env
}

func (v *Verifier) load(patterns []string) error {
	t0 := time.Now()
	cfg := &packages.Config{
		Mode:       packages.LoadAllSyntax,
		Dir:        v.repo,
		Env:        goEnv(),
		BuildFlags: []string{"-tags=verif"},
	}
	pkgs, err := packages.Load(cfg, patterns...)
	if err != nil {
		return err
	}
	var errs []string
	packages.Visit(pkgs, nil, func(p *packages.Package) {
		for _, e := range p.Errors {
			errs = append(errs, e.Error())
		}
	})
	if len(errs) > 0 {
		return fmt.Errorf("package errors: %s", strings.Join(errs, "; "))
	}
	prog, spkgs := ssautil.AllPackages(pkgs, ssa.GlobalDebug|ssa.InstantiateGenerics)
	prog.Build()
	v.prog, v.pkgs, v.ssaPkgs = prog, pkgs, spkgs
	v.funcs = map[string]*ssa.Function{}
	for fn := range ssautil.AllFunctions(prog) {
		if fn.Synthetic != "" && !strings.Contains(fn.Synthetic, "instance") {
			continue
		}
		v.funcs[specKeyOf(fn)] = fn
	}
	// contracts
	v.specs = NewSpecSet()
	std, _ := filepath.Glob(filepath.Join(v.verif, "contracts", "std", "*.spec"))
	sort.Strings(std)
	for _, f := range std {
		if err := v.specs.LoadSpecFile(f, "", true); err != nil {
			return err
		}
	}
	packages.Visit(pkgs, nil, func(p *packages.Package) {
		if !strings.HasPrefix(p.PkgPath, repoModule) {
			return
		}
		for _, f := range p.GoFiles {
			if filepath.Base(f) == "zz_contracts_verif.go" {
				if err := v.specs.LoadSpecFile(f, p.PkgPath, false); err != nil {
					v.specs.Errors = append(v.specs.Errors, err.Error())
				}
			}
		}
	})
	v.loadS = time.Since(t0).Seconds()
	if len(v.specs.Errors) > 0 {
		return fmt.Errorf("contract errors:\n  %s", strings.Join(v.specs.Errors, "\n  "))
	}
	return nil
}

// writeSet: heaps a function may write (discovered by a dry generation run).
func (v *Verifier) writeSet(fn *ssa.Function) []string {
	key := specKeyOf(fn)
	if ws, ok := v.wsCache[key]; ok {
		return ws
	}
	if v.wsBusy[key] || fn.Blocks == nil {
		return nil
	}
	v.wsBusy[key] = true
	defer delete(v.wsBusy, key)
	spec := v.specs.Funcs[key]
	fx := v.newFnCtx(fn, spec)
	fx.modAll = true
	fx.dry = true
	fx.runAll()
	ws := sortedKeys(fx.mayWrite)
	v.wsCache[key] = ws
	return ws
}

// ---------- solving ----------

type ObResult struct {
	Name      string   `json:"name"`
	Fn        string   `json:"fn"`
	Kind      string   `json:"kind"`
	Clause    string   `json:"clause,omitempty"`
	Instances int      `json:"instances"`
	Status    string   `json:"status"` // discharged | failed | vacuous
	Solvers   []string `json:"solvers,omitempty"`
	MaxMs     float64  `json:"max_ms"`
	Progress  bool     `json:"progress,omitempty"`
	Cover     bool     `json:"cover,omitempty"`
	Fail      *Failure `json:"failure,omitempty"`
	coverSat  int
}

type Failure struct {
	Trace   string            `json:"trace"`
	Answers map[string]string `json:"answers"`
	Model   string            `json:"model,omitempty"`
	SMTFile string            `json:"smt_file,omitempty"`
	Formula string            `json:"formula"`
}

type solverDef struct {
	name string
	argv []string
	opts string
}

var solvers = []solverDef{
	{"z3-new", []string{"z3-new", "-in"}, "(set-option :smt.mbqi false)\n"},
	{"z3", []string{"z3", "-in"}, "(set-option :smt.mbqi false)\n"},
	{"cvc5", []string{"cvc5", "--lang=smt2", "--incremental", "--enum-inst", "--produce-models"}, "(set-logic ALL)\n"},
}

func runSolver(s solverDef, script string, timeout time.Duration) (out string, ms float64) {
	ctx, cancel := context.WithTimeout(context.Background(), timeout)
	defer cancel()
	cmd := exec.CommandContext(ctx, s.argv[0], s.argv[1:]...)
	cmd.Stdin = strings.NewReader(script)
	var buf bytes.Buffer
	cmd.Stdout = &buf
	cmd.Stderr = &buf
	t0 := time.Now()
	cmd.Run()
	return buf.String(), float64(time.Since(t0).Microseconds()) / 1000
}

// modelTerms: terms whose values are requested from a candidate model (function inputs).
func (fx *FnCtx) modelTerms() []string {
	var ts []string
	for _, prm := range fx.fn.Params {
		n := "p_" + sanitize(prm.Name())
		switch fx.env.sortOf(prm.Type()) {
		case "Int", "Bool":
			ts = append(ts, n)
		case "Str":
			ts = append(ts, "(slen "+n+")")
			for i := 0; i < 12; i++ {
				ts = append(ts, fmt.Sprintf("(sat %s %d)", n, i))
			}
		case "Slice":
			ts = append(ts, "(sl.len "+n+")", "(sl.cap "+n+")")
		case "Ref":
			ts = append(ts, "(= "+n+" nil)")
		}
	}
	return ts
}

func scriptText(env *Env, items []Item, upto int, s solverDef, timeoutS int, standalone bool, gv ...string) (string, []int) {
	var sb strings.Builder
	if s.name == "cvc5" {
		sb.WriteString("(set-option :produce-models true)\n")
		sb.WriteString(s.opts)
		sb.WriteString(fmt.Sprintf("(set-option :tlimit-per %d)\n", timeoutS*1000))
	} else {
		sb.WriteString("(set-option :produce-models true)\n")
		sb.WriteString(s.opts)
		sb.WriteString(fmt.Sprintf("(set-option :timeout %d)\n", timeoutS*1000))
	}
	for _, d := range env.decls {
		sb.WriteString(d)
		sb.WriteString("\n")
	}
	var obIdx []int
	for i, it := range items {
		if i > upto {
			break
		}
		if it.Ob == nil {
			if env.preDecl[it.Text] {
				continue
			}
			sb.WriteString(it.Text)
			sb.WriteString("\n")
			continue
		}
		if standalone && i != upto {
			if !it.Ob.Cover && it.Ob.Formula != "false" && !it.Ob.NoAssume {
				sb.WriteString("(assert " + it.Ob.Formula + ")\n")
			}
			continue
		}
		obIdx = append(obIdx, i)
		sb.WriteString(fmt.Sprintf("(echo \"@@%d\")\n", i))
		if it.Ob.Cover {
			sb.WriteString("(push 1)\n(check-sat)\n(pop 1)\n")
		} else {
			sb.WriteString("(push 1)\n(assert (not " + it.Ob.Formula + "))\n(check-sat)\n")
			if standalone {
				if len(gv) > 0 && s.name != "cvc5" {
					sb.WriteString("(echo \"@@values\")\n(get-value (" + strings.Join(gv, " ") + "))\n(echo \"@@endvalues\")\n")
				}
				sb.WriteString("(get-model)\n")
			}
			sb.WriteString("(pop 1)\n")
			if it.Ob.Formula != "false" && !it.Ob.NoAssume {
				sb.WriteString("(assert " + it.Ob.Formula + ")\n")
			}
		}
	}
	return sb.String(), obIdx
}

func parseAnswers(out string) map[int]string {
	res := map[int]string{}
	cur := -1
	for _, ln := range strings.Split(out, "\n") {
		ln = strings.TrimSpace(ln)
		if strings.HasPrefix(ln, "@@") || strings.HasPrefix(ln, "\"@@") {
			fmt.Sscanf(strings.Trim(ln, "\""), "@@%d", &cur)
			continue
		}
		if cur >= 0 {
			switch ln {
			case "unsat", "sat", "unknown", "timeout":
				if _, ok := res[cur]; !ok {
					res[cur] = ln
				}
			}
			if strings.HasPrefix(ln, "(error") {
				if _, ok := res[cur]; !ok {
					res[cur] = "error: " + ln
				}
			}
		} else if strings.HasPrefix(ln, "(error") {
			res[-1] = ln
		}
	}
	return res
}

type fnJob struct {
	fx *FnCtx
}

func (v *Verifier) stat(solver string, ms float64) {
	v.mu.Lock()
	defer v.mu.Unlock()
	if v.solverStats == nil {
		v.solverStats = map[string]*SolverStat{}
	}
	s := v.solverStats[solver]
	if s == nil {
		s = &SolverStat{}
		v.solverStats[solver] = s
	}
	s.Count++
	s.TotalMs += ms
	if ms > s.MaxMs {
		s.MaxMs = ms
	}
}

// solveFn discharges all scripts of one function; results keyed by obligation name.
func (v *Verifier) solveFn(fx *FnCtx, filter func(string) bool, results map[string]*ObResult) {
	type task struct {
		sc *Script
		n  int
	}
	var wg sync.WaitGroup
	sem := make(chan struct{}, v.jobs)
	var rmu sync.Mutex
	record := func(ob *Oblig, status string, solver string, ms float64, fail *Failure) {
		rmu.Lock()
		defer rmu.Unlock()
		r := results[ob.Name]
		if r == nil {
			r = &ObResult{Name: ob.Name, Fn: ob.Fn, Kind: ob.Kind, Clause: ob.Clause, Status: "discharged", Progress: ob.Progress, Cover: ob.Cover}
			if ob.Cover {
				r.Status = "vacuous"
			}
			results[ob.Name] = r
		}
		r.Instances++
		if ms > r.MaxMs {
			r.MaxMs = ms
		}
		if solver != "" && !contains(r.Solvers, solver) {
			r.Solvers = append(r.Solvers, solver)
		}
		if ob.Cover {
			if status == "ok" {
				r.coverSat++
				r.Status = "discharged"
			}
			return
		}
		if status != "ok" {
			if r.Status != "failed" {
				r.Status = "failed"
				r.Fail = fail
			}
		}
	}
	for n, sc := range fx.scripts {
		sc := sc
		n := n
		relevant := false
		for _, it := range sc.Items {
			if it.Ob != nil && filter(it.Ob.Name) {
				relevant = true
			}
		}
		if !relevant {
			continue
		}
		wg.Add(1)
		sem <- struct{}{}
		go func() {
			defer wg.Done()
			defer func() { <-sem }()
			v.solveScript(fx, sc, n, filter, record)
		}()
	}
	wg.Wait()
}

func contains(a []string, s string) bool {
	for _, x := range a {
		if x == s {
			return true
		}
	}
	return false
}

func (v *Verifier) solveScript(fx *FnCtx, sc *Script, n int, filter func(string) bool, record func(*Oblig, string, string, float64, *Failure)) {
	primary := solvers[v.seed%1] // z3-new first
	var text, out string
	var obIdx []int
	var ms float64
	nOb := 0
	type decision struct {
		status, by string
		ms         float64
		fail       *Failure
	}
	decided := map[int]decision{}
	// An obligation that is proved is assumed by the obligations after it on the same path. One that is NOT proved
	// must not be: assuming a false formula would make everything after it vacuously true. So the script is re-run
	// with the unproved ones left out of the assumptions until no new one turns up.
	for round := 0; round < 8; round++ {
		text, obIdx = scriptText(fx.env, sc.Items, len(sc.Items), primary, v.timeout, false)
		if v.keep != "" {
			os.WriteFile(filepath.Join(v.keep, fmt.Sprintf("%s.path%d.smt2", sanitize(fx.short), n)), []byte(text), 0644)
		}
		nOb = len(obIdx)
		var ms1 float64
		out, ms1 = runSolver(primary, text, time.Duration(v.timeout*(nOb+1)+5)*time.Second)
		ms += ms1
		v.stat(primary.name, ms1)
		a0 := parseAnswers(out)
		changed := false
		for _, i := range obIdx {
			ob := sc.Items[i].Ob
			if ob.Cover || ob.NoAssume || a0[i] == "unsat" || ob.Formula == "false" {
				continue
			}
			if _, done := decided[i]; done {
				continue
			}
			v.mu.Lock()
			prev := v.failedOnce[ob.Name]
			v.mu.Unlock()
			if prev != nil {
				decided[i] = decision{"failed", "", 0, &Failure{Trace: sc.Trace, Answers: prev.Answers, Formula: ob.Formula, Model: prev.Model}}
			} else {
				// the other back ends get a say before the obligation counts as unproved (earlier unproved ones are
				// already left out of its assumptions)
				v.standalone(fx, sc, n, i, func(_ *Oblig, status, by string, ms float64, f *Failure) {
					decided[i] = decision{status, by, ms, f}
				})
			}
			if decided[i].status != "ok" {
				ob.NoAssume = true
				changed = true
			}
		}
		if !changed {
			break
		}
	}
	if k := strings.Index(out, "WARNING:"); k >= 0 {
		e := out[k:]
		if j := strings.Index(e, "\n"); j >= 0 {
			e = e[:j]
		}
		v.mu.Lock()
		fx.errors = append(fx.errors, "solver warning in "+sc.Trace+": "+e)
		v.mu.Unlock()
	}
	if k := strings.Index(out, "(error "); k >= 0 {
		e := out[k:]
		if j := strings.Index(e, "\n"); j >= 0 {
			e = e[:j]
		}
		v.mu.Lock()
		fx.errors = append(fx.errors, "solver error in "+sc.Trace+": "+e)
		v.mu.Unlock()
	}
	ans := parseAnswers(out)
	per := ms / float64(max(nOb, 1))
	for _, i := range obIdx {
		ob := sc.Items[i].Ob
		if !filter(ob.Name) {
			continue
		}
		a := ans[i]
		if d, ok := decided[i]; ok && !ob.Cover {
			if a == "unsat" && d.status == "ok" {
				record(ob, "ok", primary.name, per, nil)
			} else {
				record(ob, d.status, d.by, d.ms, d.fail)
			}
			continue
		}
		if ob.Cover {
			if a == "unsat" {
				record(ob, "vacuous", primary.name, per, nil)
			} else if a == "" {
				// solver died: decide standalone
				v.standalone(fx, sc, n, i, record)
			} else {
				record(ob, "ok", primary.name, per, nil)
			}
			continue
		}
		if a == "unsat" {
			if v.tier == "thorough" {
				v.confirm(fx, sc, i, record, primary.name, per)
			} else {
				record(ob, "ok", primary.name, per, nil)
			}
			continue
		}
		v.mu.Lock()
		prev := v.failedOnce[ob.Name]
		v.mu.Unlock()
		if prev != nil {
			record(ob, "failed", "", 0, &Failure{Trace: sc.Trace, Answers: prev.Answers, Formula: ob.Formula, Model: prev.Model})
			continue
		}
		v.standalone(fx, sc, n, i, record)
	}
}

// confirm (thorough): run the other back ends too; report which families agree; a definite `sat` is a disagreement.
func (v *Verifier) confirm(fx *FnCtx, sc *Script, i int, record func(*Oblig, string, string, float64, *Failure), first string, ms float64) {
	ob := sc.Items[i].Ob
	record(ob, "ok", first, ms, nil)
	for _, s := range solvers {
		if s.name == first {
			continue
		}
		text, _ := scriptText(fx.env, sc.Items, i, s, v.timeout, true)
		out, ms2 := runSolver(s, text, time.Duration(v.timeout+5)*time.Second)
		v.stat(s.name, ms2)
		a := parseAnswers(out)[i]
		if a == "unsat" {
			record(ob, "ok", s.name, ms2, nil)
		} else if a == "sat" {
			record(ob, "failed", s.name, ms2, &Failure{Trace: sc.Trace, Answers: map[string]string{first: "unsat", s.name: "sat"}, Formula: ob.Formula, Model: "solver disagreement"})
		}
	}
}

func (v *Verifier) standalone(fx *FnCtx, sc *Script, n, i int, record func(*Oblig, string, string, float64, *Failure)) {
	ob := sc.Items[i].Ob
	type res struct {
		name, ans, out string
		ms            float64
	}
	ch := make(chan res, len(solvers))
	for _, s := range solvers {
		s := s
		go func() {
			text, _ := scriptText(fx.env, sc.Items, i, s, v.timeout, true, fx.modelTerms()...)
			out, ms := runSolver(s, text, time.Duration(v.timeout+5)*time.Second)
			v.stat(s.name, ms)
			a := parseAnswers(out)[i]
			if a == "" {
				a = "no-answer"
			}
			ch <- res{s.name, a, out, ms}
		}()
	}
	answers := map[string]string{}
	model := ""
	okBy := ""
	var okMs float64
	for range solvers {
		r := <-ch
		answers[r.name] = r.ans
		if ob.Cover {
			if r.ans == "sat" || r.ans == "unknown" {
				okBy, okMs = r.name, r.ms
			}
			continue
		}
		if r.ans == "unsat" && okBy == "" {
			okBy, okMs = r.name, r.ms
		}
		if (r.ans == "sat" || r.ans == "unknown") && model == "" && strings.HasPrefix(r.name, "z3") {
			if k := strings.Index(r.out, "@@values"); k >= 0 {
				if e := strings.Index(r.out, "@@endvalues"); e > k {
					model = r.out[k : e+11]
				}
			} else if k := strings.Index(r.out, "(model"); k >= 0 {
				model = r.out[k:]
			} else if k := strings.Index(r.out, "(\n  (define-fun"); k >= 0 {
				model = r.out[k:]
			} else if k := strings.Index(r.out, "(define-fun"); k >= 0 {
				model = r.out[k:]
			}
		}
	}
	if okBy != "" {
		record(ob, "ok", okBy, okMs, nil)
		return
	}
	if ob.Cover {
		record(ob, "vacuous", "", 0, nil)
		return
	}
	f := &Failure{Trace: sc.Trace, Answers: answers, Model: trunc(model, 20000), Formula: ob.Formula}
	if v.keep != "" {
		text, _ := scriptText(fx.env, sc.Items, i, solvers[0], v.timeout, true)
		fn := filepath.Join(v.keep, fmt.Sprintf("FAIL.%s.path%d.smt2", sanitize(ob.Name), n))
		os.WriteFile(fn, []byte(text), 0644)
		f.SMTFile = fn
	}
	v.mu.Lock()
	if v.failedOnce == nil {
		v.failedOnce = map[string]*Failure{}
	}
	v.failedOnce[ob.Name] = f
	v.mu.Unlock()
	record(ob, "failed", "", 0, f)
}
