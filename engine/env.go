package main

// Env: Go types -> SMT sorts, declarations registry, prelude (theory axioms).

import (
	"fmt"
	"go/types"
	"sort"
	"strings"

	"golang.org/x/tools/go/ssa"
)

const repoModule = "github.com/whoisnian/glb"

type Env struct {
	preDecl  map[string]bool // constant declarations hoisted into decls (entry heaps used by axioms)
	prog     *ssa.Program
	pkgs     map[string]*ssa.Package // by path
	specs    *SpecSet
	declared map[string]bool
	decls    []string // in order
	lits     map[string]string
	fieldTag map[string]int
	typeTag  map[string]int
	typeTagT []types.Type
	structs  map[string]*types.Struct
	assumptions map[string]bool
}

func NewEnv(prog *ssa.Program, specs *SpecSet) *Env {
	e := &Env{prog: prog, pkgs: map[string]*ssa.Package{}, specs: specs, declared: map[string]bool{}, lits: map[string]string{},
		fieldTag: map[string]int{}, typeTag: map[string]int{}, structs: map[string]*types.Struct{}, assumptions: map[string]bool{}}
	for _, p := range prog.AllPackages() {
		e.pkgs[p.Pkg.Path()] = p
	}
	e.decls = append(e.decls, prelude)
	e.decls = append(e.decls, "(declare-const now_0 Int)\n(assert (>= now_0 0))")
	// register the scalar heaps up front so that `cell(x)` / havoc-everything cover all of them
	for _, k := range []types.BasicKind{types.Bool, types.Int, types.Int8, types.Int16, types.Int32, types.Int64, types.Uint, types.Uint8, types.Uint16, types.Uint32, types.Uint64, types.Uintptr, types.Float64, types.String, types.UnsafePointer} {
		e.memHeap(types.Typ[k])
	}
	e.memHeap(types.NewSlice(types.Typ[types.Uint8]))
	e.memHeap(types.NewInterfaceType(nil, nil))
	return e
}

// A fresh Env per function keeps VC files small; declarations are emitted on first use.
func (e *Env) decl(key, text string) {
	if e.declared[key] {
		return
	}
	e.declared[key] = true
	e.decls = append(e.decls, text)
}

const prelude = `(declare-sort Ref 0)
(declare-sort Str 0)
(declare-sort Iface 0)
(declare-sort F64 0)
(declare-datatypes ((Slice 0)) (((mk_slice (sl.arr Ref) (sl.off Int) (sl.len Int) (sl.cap Int)))))
(declare-const nil Ref)
(declare-const iface_nil Iface)
(declare-const f64_zero F64)
(declare-const str_empty Str)
(declare-fun stamp (Ref) Int)
(declare-fun ftag (Ref) Int)
(declare-fun fbase (Ref) Ref)
(declare-fun ibase (Ref) Ref)
(declare-fun iidx (Ref) Int)
(declare-fun idx (Ref Int) Ref)
(declare-fun eaddr (Slice Int) Ref)
(assert (forall ((s Slice) (i Int)) (! (= (eaddr s i) (idx (sl.arr s) (+ (sl.off s) i))) :pattern ((eaddr s i)))))
(declare-fun slen (Str) Int)
(declare-fun sat (Str Int) Int)
(declare-fun ssub (Str Int Int) Str)
(declare-fun scat (Str Str) Str)
(declare-fun iface_type (Iface) Int)
(declare-fun iface_ref (Iface) Ref)
(declare-fun and32 (Int Int) Int)
(assert (= (stamp nil) 0))
(assert (= (ftag nil) 0))
(assert (= (iface_type iface_nil) 0))
(assert (= (iface_ref iface_nil) nil))
(assert (forall ((a Ref) (i Int)) (! (and (= (ibase (idx a i)) a) (= (iidx (idx a i)) i) (= (ftag (idx a i)) (- 1)) (= (stamp (idx a i)) (stamp a)) (not (= (idx a i) nil))) :pattern ((idx a i)))))
(assert (forall ((s Str)) (! (and (>= (slen s) 0) (< (slen s) 72057594037927936)) :pattern ((slen s)))))
(assert (forall ((s Str)) (! (= (= (slen s) 0) (= s str_empty)) :pattern ((slen s)))))
(assert (forall ((s Str) (i Int)) (! (and (<= 0 (sat s i)) (< (sat s i) 256)) :pattern ((sat s i)))))
(assert (forall ((s Str) (lo Int) (hi Int)) (! (=> (and (<= 0 lo) (<= lo hi) (<= hi (slen s))) (= (slen (ssub s lo hi)) (- hi lo))) :pattern ((ssub s lo hi)))))
(assert (forall ((s Str) (lo Int) (hi Int) (i Int)) (! (=> (and (<= 0 lo) (<= lo hi) (<= hi (slen s)) (<= 0 i) (< i (- hi lo))) (= (sat (ssub s lo hi) i) (sat s (+ lo i)))) :pattern ((sat (ssub s lo hi) i)))))
(assert (forall ((s Str) (lo Int) (hi Int) (k Int)) (! (=> (and (<= 0 lo) (<= lo k) (< k hi) (<= hi (slen s))) (= (sat (ssub s lo hi) (- k lo)) (sat s k))) :pattern ((sat s k) (ssub s lo hi)))))
(assert (forall ((s Str)) (! (= (ssub s 0 (slen s)) s) :pattern ((ssub s 0 (slen s))))))
(assert (forall ((s Str) (a Int) (b Int) (c Int) (d Int)) (! (=> (and (<= 0 a) (<= a b) (<= b (slen s)) (<= 0 c) (<= c d) (<= d (- b a))) (= (ssub (ssub s a b) c d) (ssub s (+ a c) (+ a d)))) :pattern ((ssub (ssub s a b) c d)))))
(assert (forall ((a Str) (b Str)) (! (= (slen (scat a b)) (+ (slen a) (slen b))) :pattern ((scat a b)))))
(assert (forall ((a Str)) (! (and (= (scat str_empty a) a) (= (scat a str_empty) a)) :pattern ((scat str_empty a)) :pattern ((scat a str_empty)))))
(assert (forall ((a Str) (b Str) (i Int)) (! (= (sat (scat a b) i) (ite (< i (slen a)) (sat a i) (sat b (- i (slen a))))) :pattern ((sat (scat a b) i)))))
(assert (forall ((x Int) (m Int)) (! (and (<= 0 (and32 x m)) (<= (and32 x m) x) (<= (and32 x m) m)) :pattern ((and32 x m)))))
`

func sanitize(s string) string {
	var sb strings.Builder
	for _, r := range s {
		switch {
		case r >= 'a' && r <= 'z', r >= 'A' && r <= 'Z', r >= '0' && r <= '9', r == '_':
			sb.WriteRune(r)
		case r == '*':
			sb.WriteString("P")
		case r == '.', r == '/':
			sb.WriteRune('_')
		case r == '[':
			sb.WriteString("L")
		case r == ']':
			sb.WriteString("R")
		default:
			sb.WriteString("_")
		}
	}
	return sb.String()
}

func shortTypeName(t types.Type) string {
	return types.TypeString(t, func(p *types.Package) string { return p.Name() })
}

func isRepoPkg(p *types.Package) bool {
	return p != nil && (p.Path() == repoModule || strings.HasPrefix(p.Path(), repoModule+"/"))
}

// sortOf maps a Go type to an SMT sort.
func (e *Env) sortOf(t types.Type) string {
	switch u := t.Underlying().(type) {
	case *types.Basic:
		switch {
		case u.Info()&types.IsBoolean != 0:
			return "Bool"
		case u.Info()&types.IsInteger != 0:
			return "Int"
		case u.Info()&types.IsFloat != 0, u.Info()&types.IsComplex != 0:
			return "F64"
		case u.Info()&types.IsString != 0:
			return "Str"
		case u.Kind() == types.UnsafePointer, u.Kind() == types.UntypedNil:
			return "Ref"
		}
	case *types.Pointer, *types.Map, *types.Chan, *types.Signature:
		return "Ref"
	case *types.Slice:
		return "Slice"
	case *types.Interface:
		return "Iface"
	case *types.Struct:
		return e.structSort(t)
	case *types.Array:
		return "(Array Int " + e.sortOf(u.Elem()) + ")"
	case *types.Tuple:
		if u.Len() == 0 {
			return "Bool"
		}
	}
	panic(fmt.Sprintf("sortOf: unsupported type %s (%T)", t, t.Underlying()))
}

// structIsData: a struct is an SMT datatype if it is declared in the repo or all of its fields are exported.
func structIsData(t types.Type) bool {
	st := t.Underlying().(*types.Struct)
	if n, ok := t.(*types.Named); ok && isRepoPkg(n.Obj().Pkg()) {
		return true
	}
	if _, ok := t.(*types.Named); !ok {
		return true
	}
	for i := 0; i < st.NumFields(); i++ {
		if !st.Field(i).Exported() {
			return false
		}
	}
	return true
}

func (e *Env) structSort(t types.Type) string {
	name := "S_" + sanitize(shortTypeName(t))
	if e.declared["sort:"+name] {
		return name
	}
	e.declared["sort:"+name] = true
	st := t.Underlying().(*types.Struct)
	e.structs[name] = st
	if !structIsData(t) {
		e.decls = append(e.decls, fmt.Sprintf("(declare-sort %s 0)\n(declare-const zero_%s %s)", name, name, name))
		return name
	}
	var fields []string
	for i := 0; i < st.NumFields(); i++ {
		fields = append(fields, fmt.Sprintf("(%s.%s %s)", name, fieldName(st, i), e.sortOf(st.Field(i).Type())))
	}
	e.decls = append(e.decls, fmt.Sprintf("(declare-datatypes ((%s 0)) (((mk_%s %s))))", name, name, strings.Join(fields, " ")))
	return name
}

func fieldName(st *types.Struct, i int) string {
	n := st.Field(i).Name()
	if n == "_" {
		return fmt.Sprintf("_%d", i)
	}
	return n
}

// structFieldVal: accessor on a struct *value*.
func (e *Env) structFieldVal(t types.Type, v string, i int) string {
	sn := e.structSort(t)
	st := t.Underlying().(*types.Struct)
	if structIsData(t) {
		return fmt.Sprintf("(%s.%s %s)", sn, fieldName(st, i), v)
	}
	fn := fmt.Sprintf("fv_%s_%s", sn, fieldName(st, i))
	e.decl("fun:"+fn, fmt.Sprintf("(declare-fun %s (%s) %s)", fn, sn, e.sortOf(st.Field(i).Type())))
	return fmt.Sprintf("(%s %s)", fn, v)
}

func (e *Env) zeroOf(t types.Type) string {
	switch u := t.Underlying().(type) {
	case *types.Basic:
		switch e.sortOf(t) {
		case "Bool":
			return "false"
		case "Int":
			return "0"
		case "F64":
			return "f64_zero"
		case "Str":
			return "str_empty"
		case "Ref":
			return "nil"
		}
	case *types.Pointer, *types.Map, *types.Chan, *types.Signature:
		return "nil"
	case *types.Slice:
		return "(mk_slice nil 0 0 0)"
	case *types.Interface:
		return "iface_nil"
	case *types.Struct:
		sn := e.structSort(t)
		if !structIsData(t) {
			return "zero_" + sn
		}
		if u.NumFields() == 0 {
			return "mk_" + sn
		}
		var fs []string
		for i := 0; i < u.NumFields(); i++ {
			fs = append(fs, e.zeroOf(u.Field(i).Type()))
		}
		return "(mk_" + sn + " " + strings.Join(fs, " ") + ")"
	case *types.Array:
		return fmt.Sprintf("((as const %s) %s)", e.sortOf(t), e.zeroOf(u.Elem()))
	case *types.Tuple:
		return "true"
	}
	panic("zeroOf: " + t.String())
}

// heap for scalar memory of a given sort
func heapName(sortName string) string {
	return "Mem_" + sanitize(sortName)
}

func (e *Env) heapSort(name string) string { // recorded when first requested
	return e.heapSorts()[name]
}

var heapSortTable = map[string]string{}

// heapTypes: a Go type per heap (for maps: key and element), so that the heap's sort can be declared in any Env
var heapTypes = map[string][]types.Type{}

func (e *Env) ensureHeapSort(name string) {
	for _, t := range heapTypes[name] {
		e.sortOf(t)
	}
}

func (e *Env) heapSorts() map[string]string { return heapSortTable }

// memHeap: scalar memory is split by SMT sort and, for integers, by the underlying basic type: under Go's type
// safety (no unsafe) a location has one static type up to conversion between types with identical underlying types,
// so locations of different underlying integer types cannot alias.
func (e *Env) memHeap(t types.Type) string {
	s := e.sortOf(t)
	n := heapName(s)
	if s == "Int" {
		if b, ok := t.Underlying().(*types.Basic); ok {
			k := b.Name()
			switch b.Kind() {
			case types.UntypedInt:
				k = "int"
			case types.UntypedRune, types.Int32:
				k = "int32" // rune is an alias of int32
			case types.Uint8:
				k = "uint8" // byte is an alias of uint8
			}
			n = "Mem_Int_" + k
		}
	}
	heapSortTable[n] = "(Array Ref " + s + ")"
	if _, ok := heapTypes[n]; !ok {
		heapTypes[n] = []types.Type{t}
	}
	return n
}

func (e *Env) mapHeaps(m *types.Map) (has, val string) {
	ks, vs := e.sortOf(m.Key()), e.sortOf(m.Elem())
	has = "MapHas_" + sanitize(ks) + "_" + sanitize(vs)
	val = "MapVal_" + sanitize(ks) + "_" + sanitize(vs)
	heapSortTable[has] = fmt.Sprintf("(Array Ref (Array %s Bool))", ks)
	heapSortTable[val] = fmt.Sprintf("(Array Ref (Array %s %s))", ks, vs)
	heapTypes[has] = []types.Type{m.Key(), m.Elem()}
	heapTypes[val] = heapTypes[has]
	return
}

// field address constructor for field i of struct type t (t is the struct type, named or not)
func (e *Env) fieldFn(t types.Type, i int) string {
	st := t.Underlying().(*types.Struct)
	name := "fld_" + sanitize(shortTypeName(t)) + "_" + fieldName(st, i)
	return e.fieldFnNamed(name)
}

func (e *Env) fieldFnNamed(name string) string {
	if _, ok := e.fieldTag[name]; !ok {
		if strings.HasPrefix(name, "gfld_any_") {
			// markers declared on `any` (owned, pooled, wireCode, ...): tags from 2000000. An allocating callee cannot
			// initialise them outside its modifies clause (see the call frame axiom and frameCheck).
			e.fieldTag[name] = 2000000 + len(e.fieldTag) + 1
		} else if strings.HasPrefix(name, "gfld_") {
			e.fieldTag[name] = 1000000 + len(e.fieldTag) + 1
		} else {
			e.fieldTag[name] = len(e.fieldTag) + 1
		}
	}
	tag := e.fieldTag[name]
	e.decl("fun:"+name, fmt.Sprintf("(declare-fun %s (Ref) Ref)\n(assert (forall ((x Ref)) (! (and (= (fbase (%s x)) x) (= (ftag (%s x)) %d) (= (stamp (%s x)) (stamp x)) (not (= (%s x) nil))) :pattern ((%s x)))))",
		name, name, name, tag, name, name, name))
	return name
}

// string literal constant
func (e *Env) strLit(s string) string {
	if s == "" {
		return "str_empty"
	}
	if n, ok := e.lits[s]; ok {
		return n
	}
	n := fmt.Sprintf("lit_%d", len(e.lits))
	e.lits[s] = n
	var sb strings.Builder
	fmt.Fprintf(&sb, "(declare-const %s Str) ; %q\n(assert (= (slen %s) %d))", n, trunc(s, 40), n, len(s))
	if len(s) <= 64 {
		for i := 0; i < len(s); i++ {
			fmt.Fprintf(&sb, "\n(assert (= (sat %s %d) %d))", n, i, s[i])
		}
	}
	e.decls = append(e.decls, sb.String())
	// literal pairwise distinctness follows from length/bytes; for long literals assert distinctness explicitly
	if len(s) > 64 {
		for o, on := range e.lits {
			if o != s {
				e.decls = append(e.decls, fmt.Sprintf("(assert (not (= %s %s)))", n, on))
			}
		}
	}
	return n
}

func trunc(s string, n int) string {
	if len(s) > n {
		return s[:n] + "..."
	}
	return s
}

// dynamic type tags for interface values
func (e *Env) typeTagOf(t types.Type) int {
	k := types.TypeString(t, nil)
	if n, ok := e.typeTag[k]; ok {
		return n
	}
	for i, o := range e.typeTagT {
		if types.Identical(o, t) {
			return i + 1
		}
	}
	n := len(e.typeTag) + 1
	e.typeTag[k] = n
	e.typeTagT = append(e.typeTagT, t)
	return n
}

// payload function of interface values holding concrete type t
func (e *Env) ifacePayloadFn(t types.Type) string {
	s := e.sortOf(t)
	if s == "Ref" {
		return "iface_ref"
	}
	fn := "iface_val_" + sanitize(s)
	e.decl("fun:"+fn, fmt.Sprintf("(declare-fun %s (Iface) %s)", fn, s))
	return fn
}

func (e *Env) mkIfaceFn(t types.Type) string {
	s := e.sortOf(t)
	tag := e.typeTagOf(t)
	fn := fmt.Sprintf("mk_iface_%d", tag)
	pay := e.ifacePayloadFn(t)
	e.decl("fun:"+fn, fmt.Sprintf("(declare-fun %s (%s) Iface) ; %s\n(assert (forall ((x %s)) (! (and (= (iface_type (%s x)) %d) (= (%s (%s x)) x)) :pattern ((%s x)))))",
		fn, s, shortTypeName(t), s, fn, tag, pay, fn, fn))
	return fn
}

func (e *Env) uf(name string, argSorts []string, ret string) string {
	e.decl("fun:"+name, fmt.Sprintf("(declare-fun %s (%s) %s)", name, strings.Join(argSorts, " "), ret))
	return name
}

func (e *Env) sortedAssumptions() []string {
	var out []string
	for k := range e.assumptions {
		out = append(out, k)
	}
	sort.Strings(out)
	return out
}

// integer type range
func intRange(t types.Type) (lo, hi string, ok bool) {
	b, isB := t.Underlying().(*types.Basic)
	if !isB || b.Info()&types.IsInteger == 0 {
		return "", "", false
	}
	switch b.Kind() {
	case types.Int8:
		return "(- 128)", "127", true
	case types.Int16:
		return "(- 32768)", "32767", true
	case types.Int32:
		return "(- 2147483648)", "2147483647", true
	case types.Int, types.Int64:
		return "(- 9223372036854775808)", "9223372036854775807", true
	case types.Uint8:
		return "0", "255", true
	case types.Uint16:
		return "0", "65535", true
	case types.Uint32:
		return "0", "4294967295", true
	case types.Uint, types.Uint64, types.Uintptr:
		return "0", "18446744073709551615", true
	}
	return "", "", false
}

func isUnsigned(t types.Type) bool {
	b, ok := t.Underlying().(*types.Basic)
	return ok && b.Info()&types.IsUnsigned != 0
}

func intModulus(t types.Type) string {
	b := t.Underlying().(*types.Basic)
	switch b.Kind() {
	case types.Int8, types.Uint8:
		return "256"
	case types.Int16, types.Uint16:
		return "65536"
	case types.Int32, types.Uint32:
		return "4294967296"
	}
	return "18446744073709551616"
}
