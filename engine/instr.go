package main

// Semantics of individual SSA instructions.

import (
	"fmt"
	"go/token"
	"go/types"
	"math/big"
	"strings"

	"golang.org/x/tools/go/ssa"
)

func pow2(k int64) string {
	return new(big.Int).Lsh(big.NewInt(1), uint(k)).String()
}

func constInt(v ssa.Value) (int64, bool) {
	c, ok := v.(*ssa.Const)
	if !ok || c.Value == nil {
		return 0, false
	}
	b, ok := c.Type().Underlying().(*types.Basic)
	if !ok || b.Info()&types.IsInteger == 0 {
		return 0, false
	}
	if c.Uint64() > 1<<62 {
		return 0, false
	}
	return c.Int64(), true
}

func isPow2Minus1(n int64) (int64, bool) {
	if n <= 0 {
		return 0, false
	}
	m := n + 1
	if m&(m-1) != 0 {
		return 0, false
	}
	k := int64(0)
	for (int64(1) << k) < m {
		k++
	}
	return k, true
}

func tdiv(x, y string) string {
	return fmt.Sprintf("(ite (>= %s 0) (div %s %s) (- (div (- %s) %s)))", x, x, y, x, y)
}

func (p *Path) wrap(term string, t types.Type, site string, quiet bool) string {
	lo, hi, ok := intRange(t)
	if !ok {
		return term
	}
	if isUnsigned(t) {
		return fmt.Sprintf("(mod %s %s)", term, intModulus(t))
	}
	if !quiet {
		p.arith(site, fmt.Sprintf("(and (<= %s %s) (<= %s %s))", lo, term, term, hi))
	}
	return term
}

func (p *Path) arith(site, f string) {
	if p.quiet {
		return
	}
	if p.fx.spec != nil && p.fx.spec.ArithOK {
		p.fx.env.assumptions["arith-assumed:"+p.fx.short] = true
		p.assume(f)
		return
	}
	p.oblige("overflow", site, "no signed overflow", f)
}

func (p *Path) binop(i *ssa.BinOp, quiet bool) Val {
	env := p.fx.env
	x, y := p.val(i.X), p.val(i.Y)
	t := i.Type()
	xs := env.sortOf(i.X.Type())
	site := p.fx.site(i, "arith")
	switch i.Op {
	case token.EQL, token.NEQ:
		eq := fmt.Sprintf("(= %s %s)", x.T, y.T)
		if xs == "Slice" {
			// slices compare only against nil: the data pointer decides
			other := x
			if c, ok := i.X.(*ssa.Const); ok && c.IsNil() {
				other = y
			}
			eq = fmt.Sprintf("(= (sl.arr %s) nil)", other.T)
		}
		if i.Op == token.NEQ {
			eq = "(not " + eq + ")"
		}
		return Val{T: eq, Ty: t}
	case token.LSS, token.LEQ, token.GTR, token.GEQ:
		op := map[token.Token]string{token.LSS: "<", token.LEQ: "<=", token.GTR: ">", token.GEQ: ">="}[i.Op]
		switch xs {
		case "Int":
			return Val{T: fmt.Sprintf("(%s %s %s)", op, x.T, y.T), Ty: t}
		case "Str":
			f := env.uf("str_lt", []string{"Str", "Str"}, "Bool")
			switch i.Op {
			case token.LSS:
				return Val{T: fmt.Sprintf("(%s %s %s)", f, x.T, y.T), Ty: t}
			case token.GTR:
				return Val{T: fmt.Sprintf("(%s %s %s)", f, y.T, x.T), Ty: t}
			case token.LEQ:
				return Val{T: fmt.Sprintf("(not (%s %s %s))", f, y.T, x.T), Ty: t}
			default:
				return Val{T: fmt.Sprintf("(not (%s %s %s))", f, x.T, y.T), Ty: t}
			}
		case "F64":
			f := env.uf("f64_"+map[string]string{"<": "lt", "<=": "le", ">": "gt", ">=": "ge"}[op], []string{"F64", "F64"}, "Bool")
			return Val{T: fmt.Sprintf("(%s %s %s)", f, x.T, y.T), Ty: t}
		}
	}
	switch xs {
	case "Str":
		if i.Op == token.ADD {
			return Val{T: fmt.Sprintf("(scat %s %s)", x.T, y.T), Ty: t}
		}
	case "F64":
		f := env.uf("f64_"+sanitize(i.Op.String()), []string{"F64", "F64"}, "F64")
		return Val{T: fmt.Sprintf("(%s %s %s)", f, x.T, y.T), Ty: t}
	case "Bool":
		switch i.Op {
		case token.AND:
			return Val{T: fmt.Sprintf("(and %s %s)", x.T, y.T), Ty: t}
		case token.OR:
			return Val{T: fmt.Sprintf("(or %s %s)", x.T, y.T), Ty: t}
		}
	case "Int":
		switch i.Op {
		case token.ADD:
			return Val{T: p.wrap(fmt.Sprintf("(+ %s %s)", x.T, y.T), t, site, quiet), Ty: t}
		case token.SUB:
			return Val{T: p.wrap(fmt.Sprintf("(- %s %s)", x.T, y.T), t, site, quiet), Ty: t}
		case token.MUL:
			return Val{T: p.wrap(fmt.Sprintf("(* %s %s)", x.T, y.T), t, site, quiet), Ty: t}
		case token.QUO:
			if !quiet {
				p.oblige("divzero", site, "divisor is non-zero", fmt.Sprintf("(not (= %s 0))", y.T))
			}
			if isUnsigned(t) {
				return Val{T: fmt.Sprintf("(div %s %s)", x.T, y.T), Ty: t}
			}
			return Val{T: tdiv(x.T, y.T), Ty: t}
		case token.REM:
			if !quiet {
				p.oblige("divzero", site, "divisor is non-zero", fmt.Sprintf("(not (= %s 0))", y.T))
			}
			if isUnsigned(t) {
				return Val{T: fmt.Sprintf("(mod %s %s)", x.T, y.T), Ty: t}
			}
			return Val{T: fmt.Sprintf("(- %s (* %s %s))", x.T, y.T, tdiv(x.T, y.T)), Ty: t}
		case token.SHR:
			if k, ok := constInt(i.Y); ok && k >= 0 && k < 64 {
				return Val{T: fmt.Sprintf("(div %s %s)", x.T, pow2(k)), Ty: t}
			}
		case token.SHL:
			if k, ok := constInt(i.Y); ok && k >= 0 && k < 64 {
				return Val{T: p.wrap(fmt.Sprintf("(* %s %s)", x.T, pow2(k)), t, site, true), Ty: t}
			}
		case token.AND:
			if n, ok := constInt(i.Y); ok {
				if k, ok := isPow2Minus1(n); ok {
					return Val{T: fmt.Sprintf("(mod %s %s)", x.T, pow2(k)), Ty: t}
				}
			}
			if n, ok := constInt(i.X); ok {
				if k, ok := isPow2Minus1(n); ok {
					return Val{T: fmt.Sprintf("(mod %s %s)", y.T, pow2(k)), Ty: t}
				}
			}
			if isUnsigned(t) {
				return Val{T: fmt.Sprintf("(and32 %s %s)", x.T, y.T), Ty: t}
			}
		case token.AND_NOT:
			if n, ok := constInt(i.Y); ok {
				if k, ok := isPow2Minus1(n); ok {
					return Val{T: fmt.Sprintf("(- %s (mod %s %s))", x.T, x.T, pow2(k)), Ty: t}
				}
			}
		}
		// uninterpreted bit operation
		f := env.uf("bitop_"+sanitize(i.Op.String()), []string{"Int", "Int"}, "Int")
		r := fmt.Sprintf("(%s %s %s)", f, x.T, y.T)
		if lo, hi, ok := intRange(t); ok {
			p.assume(fmt.Sprintf("(and (<= %s %s) (<= %s %s))", lo, r, r, hi))
		}
		return Val{T: r, Ty: t}
	}
	p.unsupported("binop "+i.Op.String()+" on "+xs, i)
	return p.freshVal("binop", t)
}

func (p *Path) freshVal(prefix string, t types.Type) Val {
	if tup, ok := t.(*types.Tuple); ok {
		var vs []Val
		for i := 0; i < tup.Len(); i++ {
			vs = append(vs, p.freshVal(prefix, tup.At(i).Type()))
		}
		return Val{Tuple: vs, Ty: t}
	}
	n := p.fx.fresh(prefix)
	p.declare(n, p.fx.env.sortOf(t))
	p.assumeWF(n, t)
	return Val{T: n, Ty: t}
}

func (p *Path) unop(i *ssa.UnOp, quiet bool) Val {
	x := p.val(i.X)
	t := i.Type()
	switch i.Op {
	case token.NOT:
		return Val{T: "(not " + x.T + ")", Ty: t}
	case token.SUB:
		if p.fx.env.sortOf(t) == "F64" {
			f := p.fx.env.uf("f64_neg", []string{"F64"}, "F64")
			return Val{T: fmt.Sprintf("(%s %s)", f, x.T), Ty: t}
		}
		return Val{T: p.wrap("(- "+x.T+")", t, p.fx.site(i, "arith"), quiet), Ty: t}
	case token.XOR:
		if isUnsigned(t) {
			return Val{T: fmt.Sprintf("(- %s 1 %s)", intModulus(t), x.T), Ty: t}
		}
		return Val{T: fmt.Sprintf("(- (- %s) 1)", x.T), Ty: t}
	case token.MUL:
		pt := i.X.Type().Underlying().(*types.Pointer)
		if !quiet {
			p.nilCheck(x.T, p.fx.site(i, "load"), i)
			p.guardCheck(i.X, false, p.fx.site(i, "load"))
		}
		return Val{T: p.load(x.T, pt.Elem()), Ty: t}
	}
	p.unsupported("unop "+i.Op.String(), i)
	return p.freshVal("unop", t)
}

func (p *Path) nilCheck(ref, site string, instr ssa.Instruction) {
	if p.quiet {
		return
	}
	if p.fx.spec != nil && p.fx.spec.NilOK {
		p.fx.env.assumptions["nil-assumed:"+p.fx.short] = true
		p.assume(fmt.Sprintf("(not (= %s nil))", ref))
		return
	}
	p.oblige("nil", site, "pointer is non-nil", fmt.Sprintf("(not (= %s nil))", ref))
	p.assume(fmt.Sprintf("(not (= %s nil))", ref))
}

func (p *Path) convert(i *ssa.Convert) (Val, bool) {
	env := p.fx.env
	x := p.val(i.X)
	from, to := i.X.Type(), i.Type()
	fs, ts := env.sortOf(from), env.sortOf(to)
	switch {
	case fs == "Int" && ts == "Int":
		lo, hi, _ := intRange(to)
		flo, fhi, _ := intRange(from)
		_ = lo
		_ = hi
		if rangeWithin(from, to) {
			return Val{T: x.T, Ty: to}, true
		}
		_, _ = flo, fhi
		m := intModulus(to)
		if isUnsigned(to) {
			return Val{T: fmt.Sprintf("(mod %s %s)", x.T, m), Ty: to}, true
		}
		// signed narrowing / unsigned->signed of same width: two's complement wrap
		half := new(big.Int)
		half.SetString(m, 10)
		half.Rsh(half, 1)
		return Val{T: fmt.Sprintf("(- (mod (+ %s %s) %s) %s)", x.T, half, m, half), Ty: to}, true
	case fs == "Str" && ts == "Slice":
		// []byte(s): fresh array
		arr := p.fx.fresh("arr")
		p.declare(arr, "Ref")
		p.allocFresh(arr)
		r := fmt.Sprintf("(mk_slice %s 0 (slen %s) (slen %s))", arr, x.T, x.T)
		hn := env.memHeap(types.Typ[types.Uint8])
		old := p.heap(hn)
		nh := p.havocHeapRaw(hn)
		p.assume(fmt.Sprintf("(forall ((a Ref)) (! (= (select %s a) (ite (and (= (ftag a) (- 1)) (= (ibase a) %s) (<= 0 (iidx a)) (< (iidx a) (slen %s))) (sat %s (iidx a)) (select %s a))) :pattern ((select %s a))))", nh, arr, x.T, x.T, old, nh))
		return Val{T: r, Ty: to}, true
	case fs == "Slice" && ts == "Str":
		// string(bs)
		s := p.fx.fresh("str")
		p.declare(s, "Str")
		h := p.heap(env.memHeap(types.Typ[types.Uint8]))
		p.usedMem = true
		p.assume(fmt.Sprintf("(= (slen %s) (sl.len %s))", s, x.T))
		p.assume(fmt.Sprintf("(forall ((i Int)) (! (=> (and (<= 0 i) (< i (sl.len %s))) (= (sat %s i) (select %s (eaddr %s i)))) :pattern ((sat %s i))))", x.T, s, h, x.T, s))
		return Val{T: s, Ty: to}, true
	case fs == "Int" && ts == "Str":
		f := env.uf("str_of_rune", []string{"Int"}, "Str")
		return Val{T: fmt.Sprintf("(%s %s)", f, x.T), Ty: to}, true
	case fs == "Int" && ts == "F64":
		f := env.uf("f64_of_int", []string{"Int"}, "F64")
		return Val{T: fmt.Sprintf("(%s %s)", f, x.T), Ty: to}, true
	case fs == "F64" && ts == "Int":
		f := env.uf("int_of_f64_"+sanitize(shortTypeName(to)), []string{"F64"}, "Int")
		r := fmt.Sprintf("(%s %s)", f, x.T)
		if lo, hi, ok := intRange(to); ok {
			p.assume(fmt.Sprintf("(and (<= %s %s) (<= %s %s))", lo, r, r, hi))
		}
		return Val{T: r, Ty: to}, true
	case fs == ts:
		return Val{T: x.T, Ty: to}, true
	}
	return Val{}, false
}

func rangeWithin(from, to types.Type) bool {
	fb, tb := from.Underlying().(*types.Basic), to.Underlying().(*types.Basic)
	size := func(b *types.Basic) int {
		switch b.Kind() {
		case types.Int8, types.Uint8:
			return 8
		case types.Int16, types.Uint16:
			return 16
		case types.Int32, types.Uint32:
			return 32
		}
		return 64
	}
	fu, tu := fb.Info()&types.IsUnsigned != 0, tb.Info()&types.IsUnsigned != 0
	switch {
	case fu == tu:
		return size(fb) <= size(tb)
	case fu && !tu:
		return size(fb) < size(tb)
	}
	return false
}

// allocFresh: ref is a newly allocated object.
func (p *Path) allocFresh(ref string) { p.allocFreshTag(ref, 0) }

func (p *Path) allocFreshTag(ref string, tag int) {
	nn := p.fx.fresh("now")
	p.declare(nn, "Int")
	p.assume(fmt.Sprintf("(and (not (= %s nil)) (= (stamp %s) (+ %s 1)) (= %s (+ %s 1)) (= (ftag %s) %s))", ref, ref, p.st.now, nn, p.st.now, ref, smtInt(fmt.Sprint(tag))))
	p.st.now = nn
}

// ---------- slices ----------

func (p *Path) sliceInstr(i *ssa.Slice) Val {
	x := p.val(i.X)
	site := p.fx.site(i, "slice")
	get := func(v ssa.Value, def string) string {
		if v == nil {
			return def
		}
		return p.val(v).T
	}
	switch u := i.X.Type().Underlying().(type) {
	case *types.Basic: // string
		lo, hi := get(i.Low, "0"), get(i.High, "(slen "+x.T+")")
		p.oblige("bounds", site, fmt.Sprintf("0 <= lo <= hi <= len in %s", i.String()), fmt.Sprintf("(and (<= 0 %s) (<= %s %s) (<= %s (slen %s)))", lo, lo, hi, hi, x.T))
		p.assume(fmt.Sprintf("(and (<= 0 %s) (<= %s %s) (<= %s (slen %s)))", lo, lo, hi, hi, x.T))
		if i.Low == nil && i.High == nil {
			return Val{T: x.T, Ty: i.Type()}
		}
		return Val{T: fmt.Sprintf("(ssub %s %s %s)", x.T, lo, hi), Ty: i.Type()}
	case *types.Slice:
		lo, hi := get(i.Low, "0"), get(i.High, "(sl.len "+x.T+")")
		mx := get(i.Max, "(sl.cap "+x.T+")")
		p.oblige("bounds", site, fmt.Sprintf("0 <= lo <= hi <= max <= cap in %s", i.String()), fmt.Sprintf("(and (<= 0 %s) (<= %s %s) (<= %s %s) (<= %s (sl.cap %s)))", lo, lo, hi, hi, mx, mx, x.T))
		p.assume(fmt.Sprintf("(and (<= 0 %s) (<= %s %s) (<= %s %s) (<= %s (sl.cap %s)))", lo, lo, hi, hi, mx, mx, x.T))
		return Val{T: fmt.Sprintf("(mk_slice (sl.arr %s) (+ (sl.off %s) %s) (- %s %s) (- %s %s))", x.T, x.T, lo, hi, lo, mx, lo), Ty: i.Type()}
	case *types.Pointer: // *array
		n := u.Elem().Underlying().(*types.Array).Len()
		lo, hi := get(i.Low, "0"), get(i.High, fmt.Sprint(n))
		mx := get(i.Max, fmt.Sprint(n))
		p.nilCheck(x.T, site, i)
		p.oblige("bounds", site, fmt.Sprintf("0 <= lo <= hi <= max <= %d in %s", n, i.String()), fmt.Sprintf("(and (<= 0 %s) (<= %s %s) (<= %s %s) (<= %s %d))", lo, lo, hi, hi, mx, mx, n))
		return Val{T: fmt.Sprintf("(mk_slice %s %s (- %s %s) (- %s %s))", x.T, lo, hi, lo, mx, lo), Ty: i.Type()}
	}
	p.unsupported("slice of "+i.X.Type().String(), i)
	return p.freshVal("slice", i.Type())
}

// elemAddr: address of element k of slice value s
func elemAddr(s, k string) string {
	return fmt.Sprintf("(eaddr %s %s)", s, k)
}

// appendOp implements r = append(s, t...) where t is a slice or a string.
func (p *Path) appendOp(i ssa.Instruction, s, t Val, resTy types.Type) Val {
	env := p.fx.env
	elem := resTy.Underlying().(*types.Slice).Elem()
	var n string
	tIsStr := env.sortOf(t.Ty) == "Str"
	if tIsStr {
		n = "(slen " + t.T + ")"
	} else {
		n = "(sl.len " + t.T + ")"
	}
	if !isScalar(elem) && !structIsData(elem) {
		p.unsupported("append of opaque aggregates", i)
	}
	r := p.fx.fresh("app")
	p.declare(r, "Slice")
	newlen := fmt.Sprintf("(+ (sl.len %s) %s)", s.T, n)
	fits := fmt.Sprintf("(<= %s (sl.cap %s))", newlen, s.T)
	arr2 := p.fx.fresh("arr")
	p.declare(arr2, "Ref")
	nn := p.fx.fresh("now")
	p.declare(nn, "Int")
	// allocation only in the growing case
	p.assume(fmt.Sprintf("(ite %s (= %s %s) (and (not (= %s nil)) (= (stamp %s) (+ %s 1)) (= %s (+ %s 1)) (= (ftag %s) 0)))", fits, nn, p.st.now, arr2, arr2, p.st.now, nn, p.st.now, arr2))
	p.assume(fmt.Sprintf("(ite %s (= %s (mk_slice (sl.arr %s) (sl.off %s) %s (sl.cap %s))) (and (= (sl.arr %s) %s) (= (sl.off %s) 0) (= (sl.len %s) %s) (>= (sl.cap %s) %s) (<= (sl.cap %s) 72057594037927936)))",
		fits, r, s.T, s.T, newlen, s.T, r, arr2, r, r, newlen, r, newlen, r))
	p.arith(p.fx.site(i, "append"), fmt.Sprintf("(<= %s 72057594037927936)", newlen))
	// heap effect, per scalar component of the element type
	type comp struct {
		heap string
		wrap func(a string) string // address of the component within element address a
		src  func(k string) string // value of component of t[k]
	}
	var comps []comp
	addComp := func(ft types.Type, wrapA func(string) string, fromStr bool) {
		hn := env.memHeap(ft)
		comps = append(comps, comp{heap: hn, wrap: wrapA, src: func(k string) string {
			if fromStr {
				return fmt.Sprintf("(sat %s %s)", t.T, k)
			}
			return fmt.Sprintf("(select %s %s)", "%OLD%", wrapA(elemAddr(t.T, k)))
		}})
	}
	if isScalar(elem) || !structIsData(elem) {
		addComp(elem, func(a string) string { return a }, tIsStr)
	} else {
		st := elem.Underlying().(*types.Struct)
		for fi := 0; fi < st.NumFields(); fi++ {
			ft := st.Field(fi).Type()
			if !isScalar(ft) && structIsData(ft) {
				// one more level (e.g. slog.Attr.Value is opaque so this is rare)
				p.unsupported("append of nested aggregate elements", i)
				continue
			}
			fn := env.fieldFn(elem, fi)
			addComp(ft, func(a string) string { return fmt.Sprintf("(%s %s)", fn, a) }, false)
		}
	}
	p.st.now = nn
	// group components by heap (several fields may share a heap)
	byHeap := map[string][]comp{}
	var order []string
	for _, c := range comps {
		if _, ok := byHeap[c.heap]; !ok {
			order = append(order, c.heap)
		}
		byHeap[c.heap] = append(byHeap[c.heap], c)
	}
	for _, hn := range order {
		old := p.heap(hn)
		nh := p.havocHeapRaw(hn)
		// For address a: if a is component c of element e = idx(base, j):
		//   in-place case: base == arr(s), off+len <= j < off+len+n  -> src(j - off - len)
		//   grow case:     base == arr2, 0 <= j < len -> old[c(idx(arr(s), off+j))]; len <= j < len+n -> src(j-len)
		// else unchanged.
		var sb strings.Builder
		fmt.Fprintf(&sb, "(forall ((a Ref)) (! (= (select %s a) ", nh)
		closers := ""
		for _, c := range byHeap[hn] {
			// element address of a for this component
			var e string
			if c.wrap("X") == "X" {
				e = "a"
			} else {
				e = "(fbase a)"
			}
			isComp := fmt.Sprintf("(and (= (ftag %s) (- 1)) (= %s a))", e, c.wrap(e))
			j := fmt.Sprintf("(iidx %s)", e)
			b := fmt.Sprintf("(ibase %s)", e)
			srcAt := func(k string) string { return strings.ReplaceAll(c.src(k), "%OLD%", old) }
			inplace := fmt.Sprintf("(and %s %s (= %s (sl.arr %s)) (<= (+ (sl.off %s) (sl.len %s)) %s) (< %s (+ (sl.off %s) %s)))", fits, isComp, b, s.T, s.T, s.T, j, j, s.T, newlen)
			growCopy := fmt.Sprintf("(and (not %s) %s (= %s %s) (<= 0 %s) (< %s (sl.len %s)))", fits, isComp, b, arr2, j, j, s.T)
			growNew := fmt.Sprintf("(and (not %s) %s (= %s %s) (<= (sl.len %s) %s) (< %s %s))", fits, isComp, b, arr2, s.T, j, j, newlen)
			fmt.Fprintf(&sb, "(ite %s %s (ite %s (select %s %s) (ite %s %s ",
				inplace, srcAt(fmt.Sprintf("(- %s (+ (sl.off %s) (sl.len %s)))", j, s.T, s.T)),
				growCopy, old, c.wrap(elemAddr(s.T, j)),
				growNew, srcAt(fmt.Sprintf("(- %s (sl.len %s))", j, s.T)))
			closers += ")))"
		}
		fmt.Fprintf(&sb, "(select %s a)%s) :pattern ((select %s a))))", old, closers, nh)
		p.assume(sb.String())
		// derived lemma (a consequence of the axiom above, stated over eaddr terms so that quantified facts about the
		// elements of s, whose patterns mention (eaddr s k), are found for the elements of the result): the first
		// len(s) elements of the result are the elements of s
		if b, isB := elem.Underlying().(*types.Basic); isB && b.Kind() == types.Uint8 {
			continue // byte buffers are reasoned about through fold ghosts, not element-wise
		}
		for _, c := range byHeap[hn] {
			p.assume(fmt.Sprintf("(forall ((k Int)) (! (=> (and (<= 0 k) (< k (sl.len %s))) (= (select %s %s) (select %s %s))) :pattern ((select %s %s))))",
				s.T, nh, c.wrap(elemAddr(r, "k")), old, c.wrap(elemAddr(s.T, "k")), nh, c.wrap(elemAddr(r, "k"))))
		}
	}
	p.lastAppend = &appendInfo{res: r, src: s.T, n: n, fits: fits}
	return Val{T: r, Ty: resTy}
}

type appendInfo struct{ res, src, n, fits string }
