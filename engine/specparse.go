package main

// Contract expression language: lexer + Pratt parser.
//
//   e ::= e <==> e | e ==> e | e || e | e && e | e cmp e | e + e | e - e | e * e | e / e | e % e
//       | !e | -e | *e | &e | e.f | e[i] | e[lo:hi] | f(args) | (e)
//       | forall x T, y U {trig, ...} :: e | exists ... :: e
//       | ident | int | 'c' | "str" | true | false | nil
//
// Types inside quantifiers are Go type expressions without spaces (int, string, *treeNode, []byte ...).

import (
	"fmt"
	"math/big"
	"strconv"
	"strings"
	"unicode"
)

type Expr interface{ String() string }

type (
	EIdent  struct{ Name string }
	EInt    struct{ V *big.Int }
	EStr    struct{ V string }
	EBool   struct{ V bool }
	ENil    struct{}
	EUnary  struct {
		Op string
		X  Expr
	}
	EBinary struct {
		Op   string
		X, Y Expr
	}
	ECall struct {
		Fun  string
		Args []Expr
		Recv Expr // method call on an expression: Recv.Fun(Args)
	}
	ESel struct {
		X    Expr
		Name string
	}
	EIndex struct{ X, I Expr }
	ESlice struct{ X, Lo, Hi Expr }
	EQuant struct {
		Forall   bool
		Vars     []QVar
		Triggers [][]Expr
		Body     Expr
	}
)

type QVar struct{ Name, Type string }

func (e *EIdent) String() string { return e.Name }
func (e *EInt) String() string   { return e.V.String() }
func (e *EStr) String() string   { return strconv.Quote(e.V) }
func (e *EBool) String() string  { return fmt.Sprint(e.V) }
func (e *ENil) String() string   { return "nil" }
func (e *EUnary) String() string { return e.Op + e.X.String() }
func (e *EBinary) String() string {
	return "(" + e.X.String() + " " + e.Op + " " + e.Y.String() + ")"
}
func (e *ECall) String() string {
	if e.Recv != nil {
		r := *e
		r.Recv = nil
		return e.Recv.String() + "." + r.String()
	}
	var a []string
	for _, x := range e.Args {
		a = append(a, x.String())
	}
	return e.Fun + "(" + strings.Join(a, ", ") + ")"
}
func (e *ESel) String() string   { return e.X.String() + "." + e.Name }
func (e *EIndex) String() string { return e.X.String() + "[" + e.I.String() + "]" }
func (e *ESlice) String() string {
	lo, hi := "", ""
	if e.Lo != nil {
		lo = e.Lo.String()
	}
	if e.Hi != nil {
		hi = e.Hi.String()
	}
	return e.X.String() + "[" + lo + ":" + hi + "]"
}
func (e *EQuant) String() string {
	q := "exists"
	if e.Forall {
		q = "forall"
	}
	var vs []string
	for _, v := range e.Vars {
		vs = append(vs, v.Name+" "+v.Type)
	}
	return "(" + q + " " + strings.Join(vs, ", ") + " :: " + e.Body.String() + ")"
}

type tok struct {
	kind string // id int str op eof
	text string
	ival *big.Int
	pos  int
}

type lexer struct {
	src  string
	toks []tok
}

var ops3 = []string{"<==>"}
var ops2 = []string{"==>", "&&", "||", "==", "!=", "<=", ">=", "::", "<<", ">>", "&^"}

func lex(src string) ([]tok, error) {
	var toks []tok
	i := 0
	for i < len(src) {
		c := src[i]
		if c == ' ' || c == '\t' {
			i++
			continue
		}
		start := i
		switch {
		case unicode.IsLetter(rune(c)) || c == '_' || c == '$':
			for i < len(src) && (unicode.IsLetter(rune(src[i])) || unicode.IsDigit(rune(src[i])) || src[i] == '_' || src[i] == '$') {
				i++
			}
			toks = append(toks, tok{kind: "id", text: src[start:i], pos: start})
		case c >= '0' && c <= '9':
			for i < len(src) && (unicode.IsDigit(rune(src[i])) || unicode.IsLetter(rune(src[i])) || src[i] == '_') {
				i++
			}
			txt := strings.ReplaceAll(src[start:i], "_", "")
			v, ok := new(big.Int).SetString(txt, 0)
			if !ok {
				return nil, fmt.Errorf("bad number %q", txt)
			}
			toks = append(toks, tok{kind: "int", text: txt, ival: v, pos: start})
		case c == '\'':
			j := i + 1
			for j < len(src) && src[j] != '\'' {
				if src[j] == '\\' {
					j++
				}
				j++
			}
			if j >= len(src) {
				return nil, fmt.Errorf("unterminated char literal")
			}
			r, _, _, err := strconv.UnquoteChar(src[i+1:j], '\'')
			if err != nil {
				return nil, fmt.Errorf("bad char literal %s", src[i:j+1])
			}
			toks = append(toks, tok{kind: "int", text: src[i : j+1], ival: big.NewInt(int64(r)), pos: start})
			i = j + 1
		case c == '"' || c == '`':
			j := i + 1
			for j < len(src) && src[j] != c {
				if src[j] == '\\' && c == '"' {
					j++
				}
				j++
			}
			if j >= len(src) {
				return nil, fmt.Errorf("unterminated string literal")
			}
			s, err := strconv.Unquote(src[i : j+1])
			if err != nil {
				return nil, fmt.Errorf("bad string literal %s", src[i:j+1])
			}
			toks = append(toks, tok{kind: "str", text: s, pos: start})
			i = j + 1
		default:
			matched := false
			for _, o := range ops3 {
				if strings.HasPrefix(src[i:], o) {
					toks = append(toks, tok{kind: "op", text: o, pos: start})
					i += len(o)
					matched = true
					break
				}
			}
			if matched {
				continue
			}
			for _, o := range ops2 {
				if strings.HasPrefix(src[i:], o) {
					toks = append(toks, tok{kind: "op", text: o, pos: start})
					i += len(o)
					matched = true
					break
				}
			}
			if matched {
				continue
			}
			if strings.ContainsRune("+-*/%<>!()[]{}.,:&|^?", rune(c)) {
				toks = append(toks, tok{kind: "op", text: string(c), pos: start})
				i++
				continue
			}
			return nil, fmt.Errorf("unexpected character %q at %d", c, i)
		}
	}
	toks = append(toks, tok{kind: "eof", pos: len(src)})
	return toks, nil
}

type parser struct {
	toks []tok
	p    int
	src  string
}

func ParseExpr(src string) (e Expr, err error) {
	toks, err := lex(src)
	if err != nil {
		return nil, fmt.Errorf("%v in %q", err, src)
	}
	ps := &parser{toks: toks, src: src}
	defer func() {
		if r := recover(); r != nil {
			if pe, ok := r.(parseErr); ok {
				err = fmt.Errorf("%s in %q", string(pe), src)
				return
			}
			panic(r)
		}
	}()
	e = ps.expr(0)
	if ps.peek().kind != "eof" {
		ps.fail("unexpected %q", ps.peek().text)
	}
	return e, nil
}

type parseErr string

func (ps *parser) fail(f string, a ...any) {
	panic(parseErr(fmt.Sprintf(f, a...) + fmt.Sprintf(" at %d", ps.peek().pos)))
}
func (ps *parser) peek() tok { return ps.toks[ps.p] }
func (ps *parser) next() tok { t := ps.toks[ps.p]; ps.p++; return t }
func (ps *parser) isOp(s string) bool {
	t := ps.peek()
	return t.kind == "op" && t.text == s
}
func (ps *parser) expect(s string) {
	if !ps.isOp(s) {
		ps.fail("expected %q, got %q", s, ps.peek().text)
	}
	ps.p++
}

var binPrec = map[string]int{
	"<==>": 1, "==>": 2, "||": 3, "&&": 4,
	"==": 5, "!=": 5, "<": 5, "<=": 5, ">": 5, ">=": 5,
	"+": 6, "-": 6, "|": 6, "^": 6,
	"*": 7, "/": 7, "%": 7, "&": 7, "<<": 7, ">>": 7, "&^": 7,
}

func (ps *parser) expr(minPrec int) Expr {
	lhs := ps.unary()
	for {
		t := ps.peek()
		if t.kind != "op" {
			return lhs
		}
		prec, ok := binPrec[t.text]
		if !ok || prec < minPrec {
			return lhs
		}
		ps.next()
		var rhs Expr
		if t.text == "==>" { // right associative
			rhs = ps.expr(prec)
		} else {
			rhs = ps.expr(prec + 1)
		}
		lhs = &EBinary{Op: t.text, X: lhs, Y: rhs}
	}
}

func (ps *parser) unary() Expr {
	t := ps.peek()
	if t.kind == "op" {
		switch t.text {
		case "!", "-", "*", "&", "^":
			ps.next()
			return &EUnary{Op: t.text, X: ps.unary()}
		}
	}
	if t.kind == "id" && (t.text == "forall" || t.text == "exists") {
		return ps.quant()
	}
	return ps.postfix(ps.primary())
}

func (ps *parser) typeText() string {
	// a Go type expression: sequence of tokens up to ',' '{' '::' at depth 0
	var sb strings.Builder
	depth := 0
	for {
		t := ps.peek()
		if t.kind == "eof" {
			break
		}
		if t.kind == "op" && depth == 0 && (t.text == "," || t.text == "{" || t.text == "::") {
			break
		}
		if t.kind == "op" && (t.text == "[" || t.text == "(") {
			depth++
		}
		if t.kind == "op" && (t.text == "]" || t.text == ")") {
			depth--
		}
		sb.WriteString(t.text)
		ps.next()
	}
	return sb.String()
}

func (ps *parser) quant() Expr {
	q := &EQuant{Forall: ps.next().text == "forall"}
	for {
		name := ps.next()
		if name.kind != "id" {
			ps.fail("expected bound variable name")
		}
		ty := ps.typeText()
		if ty == "" {
			ps.fail("expected type of bound variable %s", name.text)
		}
		q.Vars = append(q.Vars, QVar{name.text, ty})
		if ps.isOp(",") {
			ps.next()
			continue
		}
		break
	}
	for ps.isOp("{") {
		ps.next()
		var trig []Expr
		for {
			trig = append(trig, ps.expr(3))
			if ps.isOp(",") {
				ps.next()
				continue
			}
			break
		}
		ps.expect("}")
		q.Triggers = append(q.Triggers, trig)
	}
	ps.expect("::")
	q.Body = ps.expr(0)
	return q
}

func (ps *parser) primary() Expr {
	t := ps.next()
	switch t.kind {
	case "int":
		return &EInt{V: t.ival}
	case "str":
		return &EStr{V: t.text}
	case "id":
		switch t.text {
		case "true":
			return &EBool{true}
		case "false":
			return &EBool{false}
		case "nil":
			return &ENil{}
		}
		if ps.isOp("(") {
			ps.next()
			var args []Expr
			if !ps.isOp(")") {
				for {
					args = append(args, ps.expr(0))
					if ps.isOp(",") {
						ps.next()
						continue
					}
					break
				}
			}
			ps.expect(")")
			return &ECall{Fun: t.text, Args: args}
		}
		return &EIdent{Name: t.text}
	case "op":
		if t.text == "(" {
			e := ps.expr(0)
			ps.expect(")")
			return e
		}
		// a slice type used as a type argument (typeIs(x, *[]byte), payload(x, *[]byte)): "[]" elem
		if t.text == "[" && ps.isOp("]") {
			ps.next()
			el := ps.unary()
			return &EIdent{Name: "[]" + el.String()}
		}
	}
	ps.p--
	ps.fail("unexpected %q", t.text)
	return nil
}

func (ps *parser) postfix(e Expr) Expr {
	for {
		switch {
		case ps.isOp("."):
			ps.next()
			n := ps.next()
			if n.kind != "id" {
				ps.fail("expected field name after '.'")
			}
			// qualified call pkg.F(args)
			if id, ok := e.(*EIdent); ok && ps.isOp("(") {
				ps.next()
				var args []Expr
				if !ps.isOp(")") {
					for {
						args = append(args, ps.expr(0))
						if ps.isOp(",") {
							ps.next()
							continue
						}
						break
					}
				}
				ps.expect(")")
				e = &ECall{Fun: id.Name + "." + n.text, Args: args}
				continue
			}
			if ps.isOp("(") {
				ps.next()
				var args []Expr
				if !ps.isOp(")") {
					for {
						args = append(args, ps.expr(0))
						if ps.isOp(",") {
							ps.next()
							continue
						}
						break
					}
				}
				ps.expect(")")
				e = &ECall{Fun: n.text, Args: args, Recv: e}
				continue
			}
			e = &ESel{X: e, Name: n.text}
		case ps.isOp("["):
			ps.next()
			var lo Expr
			if !ps.isOp(":") {
				lo = ps.expr(0)
			}
			if ps.isOp(":") {
				ps.next()
				var hi Expr
				if !ps.isOp("]") {
					hi = ps.expr(0)
				}
				ps.expect("]")
				e = &ESlice{X: e, Lo: lo, Hi: hi}
			} else {
				ps.expect("]")
				e = &EIndex{X: e, I: lo}
			}
		default:
			return e
		}
	}
}
