package main

// Channels, select, and the environment step (effects of other goroutines on shared monotone ghost state).
//
// Ghost fields on channel objects (declared in contracts/std/prelude.spec):
//   closed bool   (shared, monotone: other goroutines may close a channel at any blocking point)
//   sends  int    (thread-local: number of sends performed by the function under verification)
//   recvs  int    (thread-local)
//   lastSentRef / lastSentInt / lastSentIface : last value sent by this thread
//   closes int    (thread-local: number of close() calls by this thread)

import (
	"fmt"
	"go/types"

	"golang.org/x/tools/go/ssa"
)

func (p *Path) chanField(ch, name string) string {
	return fmt.Sprintf("(%s %s)", p.fx.env.fieldFnNamed("gfld_chan_"+name), ch)
}

func (p *Path) chanGet(ch, name string, t types.Type) string {
	hn := p.fx.env.memHeap(t)
	return fmt.Sprintf("(select %s %s)", p.heap(hn), p.chanField(ch, name))
}

func (p *Path) chanSet(ch, name string, t types.Type, v string) {
	hn := p.fx.env.memHeap(t)
	p.setHeap(hn, fmt.Sprintf("(store %s %s %s)", p.heap(hn), p.chanField(ch, name), v))
}

// envStep: other goroutines run. Channels may get closed (monotone).
func (p *Path) envStep() {
	env := p.fx.env
	hn := env.memHeap(tBool)
	f := env.fieldFnNamed("gfld_chan_closed")
	tag := env.fieldTag[f]
	old := p.heap(hn)
	nh := p.havocHeapRaw(hn)
	p.assume(fmt.Sprintf("(forall ((a Ref)) (! (ite (= (ftag a) %d) (=> (select %s a) (select %s a)) (= (select %s a) (select %s a))) :pattern ((select %s a))))", tag, old, nh, nh, old, nh))
}

// chanTyped: a channel value carries its element type, so channels of different element types are different
// channels (Go's type system; e.g. a context's Done channel is never one of the lane's task queues).
func (p *Path) chanTyped(ch Val) {
	ct, ok := ch.Ty.Underlying().(*types.Chan)
	if !ok {
		return
	}
	env := p.fx.env
	f := env.uf("chan_elem", []string{"Ref"}, "Int")
	p.assume(fmt.Sprintf("(=> (not (= %s nil)) (= (%s %s) %d))", ch.T, f, ch.T, env.typeTagOf(ct.Elem())))
}

func (p *Path) recordSend(ch string, v Val) {
	p.chanSet(ch, "sends", tInt, fmt.Sprintf("(+ %s 1)", p.chanGet(ch, "sends", tInt)))
	switch p.fx.env.sortOf(v.Ty) {
	case "Int":
		p.chanSet(ch, "lastSentInt", tInt, v.T)
	case "Ref":
		p.chanSet(ch, "lastSentRef", types.Typ[types.UnsafePointer], v.T)
	case "Iface":
		p.chanSet(ch, "lastSentIface", types.NewInterfaceType(nil, nil), v.T)
	}
	// global order of this thread's sends (for "send then close" protocols)
	p.setGhost("sendSeq", tInt, fmt.Sprintf("(+ %s 1)", p.getGhost("sendSeq", tInt)))
}

func (p *Path) recordRecv(ch string) {
	p.chanSet(ch, "recvs", tInt, fmt.Sprintf("(+ %s 1)", p.chanGet(ch, "recvs", tInt)))
	p.setGhost("recvSeq", tInt, fmt.Sprintf("(+ %s 1)", p.getGhost("recvSeq", tInt)))
}

func (p *Path) selectInstr(i *ssa.Select) Val {
	fx := p.fx
	site := fx.site(i, "select")
	p.envStep()
	idx := fx.fresh("sel")
	p.declare(idx, "Int")
	n := len(i.States)
	lo := "0"
	if !i.Blocking {
		lo = "(- 1)"
	}
	p.assume(fmt.Sprintf("(and (<= %s %s) (< %s %d))", lo, idx, idx, n))
	var chans []Val
	var sends []Val
	for _, s := range i.States {
		ch := p.val(s.Chan)
		p.chanTyped(ch)
		chans = append(chans, ch)
		if s.Dir == types.SendOnly {
			sends = append(sends, p.val(s.Send))
		} else {
			sends = append(sends, Val{})
		}
	}
	if !i.Blocking {
		// default is taken only if no case is ready; a receive from a closed channel is always ready
		for k, s := range i.States {
			if s.Dir == types.RecvOnly {
				p.assume(fmt.Sprintf("(=> (= %s (- 1)) (not %s))", idx, p.chanGet(chans[k].T, "closed", tBool)))
			}
		}
	}
	// sending on / receiving from a nil channel never proceeds
	for k := range i.States {
		p.assume(fmt.Sprintf("(=> (= %s %d) (not (= %s nil)))", idx, k, chans[k].T))
	}
	// structural obligations declared in the contract: enabled sets
	p.selectSpecs(i, site, chans, sends)
	// ghost effects of the chosen case, as a conditional update
	for k, s := range i.States {
		chosen := fmt.Sprintf("(= %s %d)", idx, k)
		ch := chans[k].T
		if s.Dir == types.SendOnly {
			// send on closed channel panics
			p.oblige("sendclosed", fmt.Sprintf("%s.case%d", site, k), "no send on a channel this thread has closed", fmt.Sprintf("(=> %s (= %s 0))", chosen, p.chanGet(ch, "closes", tInt)))
			p.condUpdateSend(chosen, ch, sends[k])
		} else {
			hn := fx.env.memHeap(tInt)
			a := p.chanField(ch, "recvs")
			p.setHeap(hn, fmt.Sprintf("(ite %s (store %s %s (+ (select %s %s) 1)) %s)", chosen, p.heap(hn), a, p.heap(hn), a, p.heap(hn)))
			rs := p.ghostAddr("recvSeq")
			p.setHeap(hn, fmt.Sprintf("(ite %s (store %s %s (+ (select %s %s) 1)) %s)", chosen, p.heap(hn), rs, p.heap(hn), rs, p.heap(hn)))
		}
	}
	// results: index, recvOk, received values
	tup := i.Type().(*types.Tuple)
	vals := []Val{{T: idx, Ty: tInt}}
	for k := 1; k < tup.Len(); k++ {
		vals = append(vals, p.freshVal("selrecv", tup.At(k).Type()))
	}
	// a receive from a close-only channel (context Done channels) is chosen only when it is closed; the value
	// received in the chosen case is recorded (thread-local ghost)
	pos := 2
	for k, s := range i.States {
		if s.Dir != types.RecvOnly {
			continue
		}
		chosen := fmt.Sprintf("(= %s %d)", idx, k)
		p.assume(fmt.Sprintf("(=> (and %s %s) %s)", chosen, p.chanGet(chans[k].T, "closeOnly", tBool), p.chanGet(chans[k].T, "closed", tBool)))
		if pos < len(vals) {
			v := vals[pos]
			pos++
			if fx.env.sortOf(v.Ty) == "Iface" {
				anyT := types.NewInterfaceType(nil, nil)
				h := fx.env.memHeap(anyT)
				p.setHeap(h, fmt.Sprintf("(ite %s (store (store %s %s %s) %s %s) %s)", chosen, p.heap(h), p.chanField(chans[k].T, "lastRecvIface"), v.T, p.ghostAddr("lastRecvAny"), v.T, p.heap(h)))
			}
		}
	}
	return Val{Tuple: vals, Ty: i.Type()}
}

func (p *Path) condUpdateSend(cond, ch string, v Val) {
	env := p.fx.env
	hn := env.memHeap(tInt)
	a := p.chanField(ch, "sends")
	p.setHeap(hn, fmt.Sprintf("(ite %s (store %s %s (+ (select %s %s) 1)) %s)", cond, p.heap(hn), a, p.heap(hn), a, p.heap(hn)))
	seq := p.ghostAddr("sendSeq")
	p.setHeap(hn, fmt.Sprintf("(ite %s (store %s %s (+ (select %s %s) 1)) %s)", cond, p.heap(hn), seq, p.heap(hn), seq, p.heap(hn)))
	var fld string
	var t types.Type
	switch env.sortOf(v.Ty) {
	case "Int":
		fld, t = "lastSentInt", tInt
	case "Ref":
		fld, t = "lastSentRef", types.Typ[types.UnsafePointer]
	case "Iface":
		fld, t = "lastSentIface", types.NewInterfaceType(nil, nil)
	default:
		return
	}
	h2 := env.memHeap(t)
	p.setHeap(h2, fmt.Sprintf("(ite %s (store %s %s %s) %s)", cond, p.heap(h2), p.chanField(ch, fld), v.T, p.heap(h2)))
}

func (p *Path) send(i *ssa.Send) {
	site := p.fx.site(i, "send")
	ch := p.val(i.Chan)
	v := p.val(i.X)
	p.chanTyped(ch)
	p.envStep()
	p.oblige("sendclosed", site, "no send on a channel this thread has closed", fmt.Sprintf("(= %s 0)", p.chanGet(ch.T, "closes", tInt)))
	p.assume(fmt.Sprintf("(not (= %s nil))", ch.T))
	p.recordSend(ch.T, v)
}

func (p *Path) recv(i *ssa.UnOp) Val {
	ch := p.val(i.X)
	p.chanTyped(ch)
	p.envStep()
	p.assume(fmt.Sprintf("(not (= %s nil))", ch.T))
	p.recordRecv(ch.T)
	p.assume(fmt.Sprintf("(=> %s %s)", p.chanGet(ch.T, "closeOnly", tBool), p.chanGet(ch.T, "closed", tBool)))
	var rv Val
	var res Val
	if i.CommaOk {
		tup := i.Type().(*types.Tuple)
		rv = p.freshVal("recv", tup.At(0).Type())
		res = Val{Tuple: []Val{rv, p.freshVal("recvok", tup.At(1).Type())}, Ty: i.Type()}
	} else {
		rv = p.freshVal("recv", i.Type())
		res = rv
	}
	if p.fx.env.sortOf(rv.Ty) == "Iface" {
		anyT := types.NewInterfaceType(nil, nil)
		p.chanSet(ch.T, "lastRecvIface", anyT, rv.T)
		p.setGhost("lastRecvAny", anyT, rv.T)
	}
	return res
}

func (p *Path) chanClose(in ssa.Instruction, ch Val) {
	site := p.fx.site(in, "call(close)")
	p.oblige("closenil", site, "close of a non-nil channel", fmt.Sprintf("(not (= %s nil))", ch.T))
	p.oblige("doubleclose", site, "channel not already closed by this thread", fmt.Sprintf("(= %s 0)", p.chanGet(ch.T, "closes", tInt)))
	p.chanSet(ch.T, "closes", tInt, fmt.Sprintf("(+ %s 1)", p.chanGet(ch.T, "closes", tInt)))
	p.chanSet(ch.T, "closed", tBool, "true")
	p.chanSet(ch.T, "closeSeq", tInt, p.getGhost("sendSeq", tInt))
}

// selectSpecs checks `attr select#N ...` declarations: "the N-th select must offer at least these cases".
//   attr select#3 blocking recv(tl.ctx.Done()) send(tl.blockingQueueList[index],task) send(tl.universalQueue,task)
func (p *Path) selectSpecs(i *ssa.Select, site string, chans, sends []Val) {
	fx := p.fx
	if fx.spec == nil {
		return
	}
	decl, ok := fx.spec.Attrs[site]
	if !ok {
		return
	}
	fx.selectSeen[site] = true
	c := p.specCtx()
	nListed := 0
	for _, item := range splitFields(decl) {
		if item != "blocking" && item != "nonblocking" && item != "only" {
			nListed++
		}
	}
	for _, item := range splitFields(decl) {
		switch {
		case item == "only":
			// the select waits for nothing but the listed cases (e.g. no timeout that would let it proceed early)
			f := "true"
			if len(i.States) != nListed {
				f = "false"
			}
			p.oblige("enabled", site+".only", fmt.Sprintf("select has exactly the %d listed cases (it has %d)", nListed, len(i.States)), f)
		case item == "blocking":
			f := "false"
			if i.Blocking {
				f = "true"
			}
			p.oblige("enabled", site+".blocking", "select is blocking", f)
		case item == "nonblocking":
			f := "true"
			if i.Blocking {
				f = "false"
			}
			p.oblige("enabled", site+".nonblocking", "select has a default case", f)
		default:
			e, err := ParseExpr(item)
			if err != nil {
				p.specError("attr "+site, Clause{Src: item, File: fx.spec.File}, err)
				continue
			}
			call, ok := e.(*ECall)
			if !ok || (call.Fun != "recv" && call.Fun != "send") {
				p.specError("attr "+site, Clause{Src: item, File: fx.spec.File}, fmt.Errorf("expected recv(ch) or send(ch, v)"))
				continue
			}
			chv, err := c.Eval(call.Args[0])
			if err != nil {
				p.specError("attr "+site, Clause{Src: item, File: fx.spec.File}, err)
				continue
			}
			var ds []string
			for k, s := range i.States {
				if call.Fun == "recv" && s.Dir == types.RecvOnly {
					ds = append(ds, fmt.Sprintf("(= %s %s)", chans[k].T, chv.T))
				}
				if call.Fun == "send" && s.Dir == types.SendOnly {
					d := fmt.Sprintf("(= %s %s)", chans[k].T, chv.T)
					if len(call.Args) > 1 {
						sv, err := c.Eval(call.Args[1])
						if err != nil {
							p.specError("attr "+site, Clause{Src: item, File: fx.spec.File}, err)
							continue
						}
						d = fmt.Sprintf("(and %s (= %s %s))", d, sends[k].T, sv.T)
					}
					ds = append(ds, d)
				}
			}
			f := "false"
			if len(ds) > 0 {
				f = "(or " + joinS(ds) + ")"
			}
			ob := &Oblig{Name: fx.short + ".enabled@" + site + "." + sanitize(item), Fn: fx.short, Kind: "enabled", Clause: "select offers " + item, Formula: f, Trace: p.traceStr(), Site: site, Progress: true}
			p.items = append(p.items, Item{Ob: ob})
		}
	}
}

func joinS(a []string) string {
	s := ""
	for i, x := range a {
		if i > 0 {
			s += " "
		}
		s += x
	}
	return s
}

// splitFields splits on spaces at paren depth 0.
func splitFields(s string) []string {
	var out []string
	depth, start := 0, -1
	for i := 0; i < len(s); i++ {
		c := s[i]
		switch {
		case c == '(' || c == '[':
			depth++
		case c == ')' || c == ']':
			depth--
		}
		if (c == ' ' || c == '\t') && depth == 0 {
			if start >= 0 {
				out = append(out, s[start:i])
				start = -1
			}
			continue
		}
		if start < 0 {
			start = i
		}
	}
	if start >= 0 {
		out = append(out, s[start:])
	}
	return out
}
