// package-dir: daemon
package daemon

// Replay harness for C20 (schedule: Done() precedes the launcher's wait). Needs build tag verif: the hook
// verifPause() delays the launcher right after cmd.Start() for GLB_VERIF_PAUSE. The daemon registered here calls
// Done() at once. On a tree where the SIGINT handler is installed only after cmd.Start(), the signal kills the
// launcher and Launch reports failure for a running daemon.

import (
	"fmt"
	"os"
	"testing"
	"time"
)

func init() {
	Register("GovcReplayDaemon", func() {
		Done()
		time.Sleep(1500 * time.Millisecond)
	})
}

func TestGovcReplay(t *testing.T) {
	ob := os.Getenv("GOVC_OBLIGATION")
	os.Setenv("GLB_VERIF_PAUSE", "400ms")
	defer os.Unsetenv("GLB_VERIF_PAUSE")
	pid, err := Launch("GovcReplayDaemon")
	if err != nil || pid <= 0 {
		fmt.Printf("REPRODUCED obligation=%s: daemon called Done() while the launcher was between cmd.Start() and signal.Notify(): Launch returned pid=%d err=%q\n", ob, pid, fmt.Sprint(err))
		t.Fatal("C20 violated on the real code")
	}
	if p, err := os.FindProcess(pid); err == nil {
		p.Kill()
	}
}
