// package-dir: util/fsutil
package fsutil

// Replay harness for C17. ResolveUrlPath is a pure function of two strings, so a failed obligation is replayed by
// searching a small neighbourhood of inputs on the real code: the model's own (base, path) if the solver gave one,
// then every path of length 0..7 over the alphabet { '/', '.', 'a', '\\' } against a set of bases. Oracle (independent
// of the code): the result must stay inside the base (lexically: equal to Clean(base) or below it), and a path
// without "." / ".." segments must resolve to Join(base, path).

import (
	"encoding/json"
	"fmt"
	"os"
	"path/filepath"
	"strings"
	"testing"
)

func govcWithin(base, res string) bool {
	b := filepath.Clean(base)
	r := filepath.Clean(res)
	if b == r {
		return true
	}
	if b == "/" {
		return strings.HasPrefix(r, "/")
	}
	if b == "." {
		return !filepath.IsAbs(r) && r != ".." && !strings.HasPrefix(r, "../")
	}
	return strings.HasPrefix(r, b+"/")
}

func govcDotFree(p string) bool {
	for _, seg := range strings.Split(p, "/") {
		if seg == "." || seg == ".." {
			return false
		}
	}
	return true
}

func TestGovcReplay(t *testing.T) {
	ob := os.Getenv("GOVC_OBLIGATION")
	var model map[string]string
	json.Unmarshal([]byte(os.Getenv("GOVC_MODEL")), &model)
	found := 0
	check := func(base, p string) {
		if found >= 5 || base == "" {
			return
		}
		res := ResolveUrlPath(base, p)
		if !govcWithin(base, res) {
			found++
			fmt.Printf("REPRODUCED obligation=%s: ResolveUrlPath(%q, %q) = %q is outside the base\n", ob, base, p, res)
			return
		}
		rooted := p
		if rooted == "" || rooted[0] != '/' {
			rooted = "/" + rooted
		}
		if govcDotFree(rooted) && res != filepath.Join(base, rooted) {
			found++
			fmt.Printf("REPRODUCED obligation=%s: ResolveUrlPath(%q, %q) = %q, want %q (no dot segments)\n", ob, base, p, res, filepath.Join(base, rooted))
		}
	}
	if b, ok := model["p_baseFilePath"]; ok {
		check(b, model["p_rawUrlPath"])
	}
	bases := []string{"/data", "/srv/www/", "rel/dir", ".", "/", "/a/../b", "x"}
	alpha := []byte{'/', '.', 'a', '\\'}
	var gen func(prefix []byte, n int)
	gen = func(prefix []byte, n int) {
		for _, b := range bases {
			check(b, string(prefix))
		}
		if n == 0 {
			return
		}
		for _, c := range alpha {
			gen(append(prefix, c), n-1)
		}
	}
	gen(nil, 7)
	if found > 0 {
		t.Fatalf("%d violations of C17 on the real code", found)
	}
}
