// package-dir: tasklane
// race: on
package tasklane

// Replay harness for C14 (run with -race). Two lanes whose tasks panic with values of different dynamic types at
// the same time while Status() is polled from a third goroutine: on a tree where the last-panic slot is a plain
// field the race detector reports the unsynchronised writes (worker vs worker) and the write/read (worker vs
// Status). The race detector's report is the witness.

import (
	"context"
	"errors"
	"sync"
	"testing"
	"time"
)

type govcPanicTask struct{ v any }

func (t govcPanicTask) Start() { panic(t.v) }

func TestGovcReplay(t *testing.T) {
	ctx, cancel := context.WithCancel(context.Background())
	tl := New(ctx, 4, 8)
	var wg sync.WaitGroup
	stop := make(chan struct{})
	wg.Add(1)
	go func() {
		defer wg.Done()
		for {
			select {
			case <-stop:
				return
			default:
				_ = tl.Status().LastPanic
			}
		}
	}()
	vals := []any{"text", 42, errors.New("err"), struct{ a int }{1}}
	for i := 0; i < 400; i++ {
		tl.PushTask(govcPanicTask{vals[i%len(vals)]}, i%4)
	}
	time.Sleep(100 * time.Millisecond)
	close(stop)
	wg.Wait()
	cancel()
	tl.Wait()
	if tl.Status().LastPanic == nil {
		t.Fatal("REPRODUCED: no panic value recorded")
	}
}
