// package-dir: util/strutil
package strutil

// Replay harness for C16. ShellEscape / ShellEscapeExceptTilde are pure functions of one string. A failed obligation
// is replayed by evaluating the escaped text with an independent model of POSIX sh word splitting / quote removal
// (single quotes, double quotes with \ escapes of $ ` " \ and newline, unquoted \), and with /bin/sh itself when it
// is available, over: the model's input if the solver gave one, every string of length 0..4 over the shell's special
// characters, and a list of hand-picked inputs (many quotes, invalid UTF-8, leading "~/" forms).
// Oracle: the text must be exactly one word whose value is the input (for ExceptTilde: "$HOME" + rest for "~/rest").

import (
	"encoding/json"
	"fmt"
	"os"
	"os/exec"
	"strings"
	"testing"
)

// govcShWords: the words sh would see in `text` (no expansions: an unquoted or double-quoted expansion character
// makes the result "unsafe"), with a leading unquoted ~/ replaced by home.
func govcShWords(text, home string) (words []string, safe bool) {
	safe = true
	var cur []byte
	inWord := false
	i := 0
	for i < len(text) {
		c := text[i]
		switch {
		case c == '\'':
			inWord = true
			j := strings.IndexByte(text[i+1:], '\'')
			if j < 0 {
				return nil, false
			}
			cur = append(cur, text[i+1:i+1+j]...)
			i += j + 2
		case c == '"':
			inWord = true
			i++
			for {
				if i >= len(text) {
					return nil, false
				}
				d := text[i]
				if d == '"' {
					i++
					break
				}
				if d == '$' || d == '`' {
					safe = false
				}
				if d == '\\' && i+1 < len(text) && strings.IndexByte("$`\"\\\n", text[i+1]) >= 0 {
					cur = append(cur, text[i+1])
					i += 2
					continue
				}
				cur = append(cur, d)
				i++
			}
		case c == '\\':
			if i+1 >= len(text) {
				return nil, false
			}
			inWord = true
			if text[i+1] != '\n' {
				cur = append(cur, text[i+1])
			}
			i += 2
		case c == ' ' || c == '\t' || c == '\n':
			if inWord {
				words = append(words, string(cur))
				cur, inWord = nil, false
			}
			i++
		case strings.IndexByte(";&|<>()$`*?[#!{}=%", c) >= 0:
			return nil, false
		case c == '~' && !inWord && i+1 < len(text) && text[i+1] == '/':
			inWord = true
			cur = append(cur, home...)
			i++
		case c == '~' && !inWord:
			return nil, false
		default:
			inWord = true
			cur = append(cur, c)
			i++
		}
	}
	if inWord {
		words = append(words, string(cur))
	}
	return words, safe
}

func TestGovcReplay(t *testing.T) {
	ob := os.Getenv("GOVC_OBLIGATION")
	var model map[string]string
	json.Unmarshal([]byte(os.Getenv("GOVC_MODEL")), &model)
	const home = "/home/govc"
	found := 0
	sh, _ := exec.LookPath("sh")
	realSh := func(text string) (string, bool) {
		if sh == "" || strings.ContainsAny(text, "\x00") {
			return "", false
		}
		cmd := exec.Command(sh, "-c", "set -- "+text+"; printf '%s:' \"$#\"; printf '%s' \"$1\"")
		cmd.Env = []string{"HOME=" + home, "PATH=/usr/bin:/bin"}
		out, err := cmd.Output()
		if err != nil {
			return "ERR", true
		}
		return string(out), true
	}
	check := func(s string) {
		if found >= 5 || strings.IndexByte(s, 0) >= 0 {
			return
		}
		for _, f := range []struct {
			name string
			fn   func(string) string
			want string
		}{
			{"ShellEscape", ShellEscape, s},
			{"ShellEscapeExceptTilde", ShellEscapeExceptTilde, func() string {
				if strings.HasPrefix(s, "~/") {
					return home + "/" + s[2:]
				}
				return s
			}()},
		} {
			text := f.fn(s)
			words, safe := govcShWords(text, home)
			if !safe || len(words) != 1 || words[0] != f.want {
				if !(len(words) == 0 && f.want == "" && false) {
					found++
					fmt.Printf("REPRODUCED obligation=%s: %s(%q) = %q is read by sh as %q (safe=%v), want the single word %q\n", ob, f.name, s, text, words, safe, f.want)
					continue
				}
			}
			if out, ok := realSh(text); ok && out != "1:"+f.want {
				found++
				fmt.Printf("REPRODUCED obligation=%s: /bin/sh evaluates %s(%q) = %q to %q, want %q\n", ob, f.name, s, text, out, "1:"+f.want)
			}
		}
	}
	if s, ok := model["p_s"]; ok {
		check(s)
	}
	for _, s := range []string{"", "'", "''", "'''", "a'b'c'd", "don't can't won't", "x'y'z'; echo INJECTED; echo '", "~/doc", "~/~backup", "~//etc", "~/it's", "~", "~x/y", "caf\xe9.txt", "\xff\xfe", "$HOME `id` \"q\" \\ *", "a b\tc\nd"} {
		check(s)
	}
	alpha := []byte{'\'', '"', '\\', '$', '`', ' ', '~', '/', 'a', '*'}
	var gen func(prefix []byte, n int)
	gen = func(prefix []byte, n int) {
		check(string(prefix))
		if n == 0 || found >= 5 {
			return
		}
		for _, c := range alpha {
			gen(append(prefix, c), n-1)
		}
	}
	sh = "" // the exhaustive part uses the model only (a process per input would take minutes)
	gen(nil, 4)
	if found > 0 {
		t.Fatalf("%d violations of C16 on the real code", found)
	}
}
