// package-dir: util/netutil
package netutil

// Replay harness for C12. Schedules: W writers, each owning its own /24 ranges (so that the sequential result is
// defined), add and remove them while the total crosses the 256-entry list-to-map switch, one goroutine toggles
// 0.0.0.0/0, readers look up addresses of ranges that are present for the whole run; plus the fixed interleaving
// Add(0/0) ; Add(r) ; Remove(0/0) ; Contains(r), and 8 concurrent Removes racing with the Add that performs the switch.
// Oracle: a lookup for an address in a range present during the whole call is true; after all updates stopped the
// filter agrees with the set obtained by applying each writer's operations in order. Run under the race detector.
// race: on

import (
	"fmt"
	"net"
	"os"
	"sync"
	"sync/atomic"
	"testing"
)

func govcNet(a, b, c byte, ones int) *net.IPNet {
	return &net.IPNet{IP: net.IPv4(a, b, c, 0).To4(), Mask: net.CIDRMask(ones, 32)}
}

func TestGovcReplay(t *testing.T) {
	ob := os.Getenv("GOVC_OBLIGATION")
	found := 0
	var mu sync.Mutex
	report := func(f string, a ...any) {
		mu.Lock()
		defer mu.Unlock()
		found++
		if found <= 6 {
			fmt.Printf("REPRODUCED obligation=%s: %s\n", ob, fmt.Sprintf(f, a...))
		}
	}
	all := &net.IPNet{IP: net.IPv4zero.To4(), Mask: net.CIDRMask(0, 32)}

	// fixed interleaving around match-all
	{
		f := NewIPv4Filter()
		f.Add(all)
		f.Add(govcNet(10, 1, 1, 24))
		f.Remove(all)
		if !f.Contains(net.IPv4(10, 1, 1, 7)) {
			report("Add(0.0.0.0/0); Add(10.1.1.0/24); Remove(0.0.0.0/0): Contains(10.1.1.7) = false")
		}
	}
	// Removes racing with the Add that performs the list-to-map switch
	for trial := 0; trial < 200 && found == 0; trial++ {
		f := NewIPv4Filter()
		for k := 0; k < 256; k++ {
			f.Add(govcNet(10, 0, byte(k), 24))
		}
		var wg sync.WaitGroup
		start := make(chan struct{})
		wg.Add(1)
		go func() { defer wg.Done(); <-start; f.Add(govcNet(172, 16, 0, 16)) }()
		for k := 0; k < 8; k++ {
			wg.Add(1)
			go func(k int) { defer wg.Done(); <-start; f.Remove(govcNet(10, 0, byte(k), 24)) }(k)
		}
		close(start)
		wg.Wait()
		for k := 0; k < 8; k++ {
			if f.Contains(net.IPv4(10, 0, byte(k), 1)) {
				report("trial %d: 10.0.%d.0/24 was removed (concurrently with the list-to-map switch) and is still matched after all calls returned", trial, k)
				break
			}
		}
		if !f.Contains(net.IPv4(10, 0, 200, 1)) || !f.Contains(net.IPv4(172, 16, 3, 4)) {
			report("trial %d: a range that was never removed is not matched after the switch", trial)
		}
	}
	// free-running writers / toggler / readers
	for round := 0; round < 3 && found == 0; round++ {
		f := NewIPv4Filter()
		const writers, per = 8, 40
		var stop int32
		var wg, rd sync.WaitGroup
		keep := func(w, k int) bool { return k%3 != 0 } // ranges with k%3==0 are removed again by their owner
		for w := 0; w < writers; w++ {
			f.Add(govcNet(20, byte(w), 0, 24)) // present for the whole run
		}
		for r := 0; r < 3; r++ {
			rd.Add(1)
			go func() {
				defer rd.Done()
				for atomic.LoadInt32(&stop) == 0 {
					for w := 0; w < writers; w++ {
						if !f.Contains(net.IPv4(20, byte(w), 0, 9)) {
							report("a lookup for 20.%d.0.9 returned false although 20.%d.0.0/24 is present for the whole run", w, w)
							return
						}
					}
				}
			}()
		}
		rd.Add(1)
		go func() {
			defer rd.Done()
			for atomic.LoadInt32(&stop) == 0 {
				f.Add(all)
				f.Remove(all)
			}
		}()
		for w := 0; w < writers; w++ {
			wg.Add(1)
			go func(w int) {
				defer wg.Done()
				for k := 0; k < per; k++ {
					f.Add(govcNet(30, byte(w), byte(k), 24))
				}
				for k := 0; k < per; k++ {
					if !keep(w, k) {
						f.Remove(govcNet(30, byte(w), byte(k), 24))
					}
				}
			}(w)
		}
		wg.Wait()
		atomic.StoreInt32(&stop, 1)
		rd.Wait()
		f.Remove(all)
		for w := 0; w < writers && found == 0; w++ {
			for k := 0; k < per; k++ {
				if got := f.Contains(net.IPv4(30, byte(w), byte(k), 5)); got != keep(w, k) {
					report("final state: Contains(30.%d.%d.5) = %v, the writer's own sequence of operations leaves it %v", w, k, got, keep(w, k))
					break
				}
			}
		}
	}
	if found > 0 {
		t.Fatalf("%d violations of C12 on the real code", found)
	}
}
