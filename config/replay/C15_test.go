// package-dir: logger
package logger

// Replay harness for C15. Requests are served through a real httpd.Mux with Logger.Relay as the relay handler and a
// JSON logger at Info level writing into a buffer. Handler behaviours: return without writing, write a body only,
// WriteHeader(201/302/404) with or without a body, panic before anything was written and after a status was written,
// with panic values of several kinds (string, error, int, an error wrapping http.ErrAbortHandler, a typed-nil error
// pointer). RemoteAddr and Host differ. Oracle (from the property statement): the panic does not escape; the client
// sees 500 iff the handler panicked before any status was written, otherwise exactly what the handler sent; exactly
// one REQ_BEG and one REQ_END with the request's method, URI, client IP (from RemoteAddr) and id; REQ_END's code is
// the status the client received; a panic gives exactly one Error record with the panic value and the same id.

import (
	"bytes"
	"encoding/json"
	"errors"
	"fmt"
	"net/http"
	"net/http/httptest"
	"os"
	"strings"
	"testing"

	"github.com/whoisnian/glb/httpd"
)

type govcNilErr struct{ msg string }

func (e *govcNilErr) Error() string { return "nilerr" }

func TestGovcReplay(t *testing.T) {
	ob := os.Getenv("GOVC_OBLIGATION")
	found := 0
	report := func(f string, a ...any) {
		found++
		if found <= 6 {
			fmt.Printf("REPRODUCED obligation=%s: %s\n", ob, fmt.Sprintf(f, a...))
		}
	}
	var typedNil *govcNilErr
	panics := map[string]any{
		"":        nil,
		"string":  "boom",
		"error":   errors.New("bad thing"),
		"int":     42,
		"wrapped": fmt.Errorf("wrapped: %w", http.ErrAbortHandler),
		"nilptr":  error(typedNil),
	}
	type behaviour struct {
		name   string
		status int    // 0: no WriteHeader
		body   string // "" : no Write
	}
	behaviours := []behaviour{{"nothing", 0, ""}, {"body", 0, "hello"}, {"201", 201, ""}, {"404body", 404, "nf"}, {"302", 302, ""}}
	for pname, pval := range panics {
		for _, b := range behaviours {
			if found > 6 {
				break
			}
			var logbuf bytes.Buffer
			lg := New(NewJsonHandler(&logbuf, NewOptions(LevelInfo, false, false)))
			mux := httpd.NewMux()
			mux.HandleRelay(lg.Relay)
			b, pval, pname := b, pval, pname
			mux.Handle("/x/:id", http.MethodGet, func(s *httpd.Store) {
				if b.status != 0 {
					s.W.WriteHeader(b.status)
				}
				if b.body != "" {
					s.W.Write([]byte(b.body))
				}
				if pname != "" {
					panic(pval)
				}
			})
			req := httptest.NewRequest(http.MethodGet, "/x/7?q=1", nil)
			req.RemoteAddr = "203.0.113.7:50123"
			req.Host = "files.example.org:8443"
			rec := httptest.NewRecorder()
			escaped := func() (p any) {
				defer func() { p = recover() }()
				mux.ServeHTTP(rec, req)
				return nil
			}()
			what := fmt.Sprintf("handler %s then panic(%s)", b.name, pname)
			if escaped != nil {
				report("%s: the panic escaped Relay: %v", what, escaped)
				continue
			}
			wrote := b.status != 0 || b.body != ""
			wantCode := b.status
			if wantCode == 0 {
				wantCode = 200
			}
			wantBody := b.body
			if pname != "" && !wrote {
				wantCode = 500
				wantBody = ""
			}
			if rec.Code != wantCode {
				report("%s: the client received status %d, want %d", what, rec.Code, wantCode)
			}
			if wantCode != 500 && rec.Body.String() != wantBody {
				report("%s: the client received body %q, the handler wrote %q", what, rec.Body.String(), wantBody)
			}
			var beg, end, errs []map[string]any
			for _, line := range strings.Split(strings.TrimSpace(logbuf.String()), "\n") {
				var m map[string]any
				if line == "" {
					continue
				}
				if json.Unmarshal([]byte(line), &m) != nil {
					report("%s: log line is not JSON: %q", what, line)
					continue
				}
				switch {
				case m["tag"] == "REQ_BEG":
					beg = append(beg, m)
				case m["tag"] == "REQ_END":
					end = append(end, m)
				case m["level"] == "ERROR":
					errs = append(errs, m)
				}
			}
			if len(beg) != 1 || len(end) != 1 {
				report("%s: %d REQ_BEG and %d REQ_END records, want one each", what, len(beg), len(end))
				continue
			}
			for _, m := range []map[string]any{beg[0], end[0]} {
				if m["ip"] != "203.0.113.7" || m["method"] != "GET" || m["path"] != "/x/7?q=1" || m["tid"] != beg[0]["tid"] || m["tid"] == "" {
					report("%s: record %v does not carry the request's client IP 203.0.113.7 / GET / /x/7?q=1 / one id", what, m)
				}
			}
			if code, _ := end[0]["code"].(float64); int(code) != rec.Code {
				report("%s: REQ_END says code=%v but the client received %d", what, end[0]["code"], rec.Code)
			}
			wantErrs := 0
			if pname != "" {
				wantErrs = 1
			}
			if len(errs) != wantErrs {
				report("%s: %d Error records, want %d", what, len(errs), wantErrs)
			} else if wantErrs == 1 {
				if errs[0]["tid"] != beg[0]["tid"] {
					report("%s: the Error record's id %v differs from the request's %v", what, errs[0]["tid"], beg[0]["tid"])
				}
				if _, ok := errs[0]["panic"]; !ok {
					report("%s: the Error record carries no panic value: %v", what, errs[0])
				}
			}
		}
	}
	if found > 0 {
		t.Fatalf("%d violations of C15 on the real code", found)
	}
}
