// package-dir: logger
package logger

// Replay harness for the logger family (C01, C02, C03, C13; the same file under four names). The solver's models for
// these properties describe buffer states, not inputs, so a failed obligation is replayed by a systematic search on
// the real code: derivation trees (With / WithGroup, with siblings derived from parents that already carry
// attributes) x attribute lists (keyed / inline / empty groups, LogValuer, awkward strings, errors) x the three
// handlers, and for every logger of every tree:
//   C03  its line equals the line of a logger built alone from a fresh root by replaying its own chain;
//   C01  (JSON) the line is one JSON object + '\n' and decodes to the expected nested members (strings intact, every
//        invalid byte U+FFFD);
//   C13  (text) the line splits into key=value tokens (bare or Go-quoted) that unquote to the expected dotted keys and
//        values, in order;
//   C02  exactly one Write per enabled record carrying the whole line, none below the threshold, and no two Writes
//        overlapping when loggers of one family log concurrently.
// Oracles are written from the property statements, not from the code.

import (
	"bytes"
	"encoding/json"
	"errors"
	"fmt"
	"io"
	"log/slog"
	"os"
	"reflect"
	"strconv"
	"strings"
	"sync"
	"sync/atomic"
	"testing"
	"time"
	"unicode/utf8"
)

type govcLV struct{ v slog.Value }

func (g govcLV) LogValue() slog.Value { return g.v }

type govcOp struct {
	group string      // WithGroup(group) when non-empty
	attrs []slog.Attr // With(attrs...) otherwise
}

// expected members: an ordered list of (path, key, value) leaves
type govcLeaf struct {
	path []string
	key  string
	val  any // string | int64
}

func govcFlatten(path []string, attrs []slog.Attr, out *[]govcLeaf) {
	for _, a := range attrs {
		v := a.Value.Resolve()
		if v.Kind() == slog.KindGroup {
			p := path
			if a.Key != "" {
				p = append(append([]string{}, path...), a.Key)
			}
			govcFlatten(p, v.Group(), out)
			continue
		}
		var val any
		switch v.Kind() {
		case slog.KindInt64:
			val = v.Int64()
		case slog.KindString:
			val = v.String()
		default:
			if e, ok := v.Any().(error); ok {
				val = e.Error()
			} else {
				val = fmt.Sprint(v.Any())
			}
		}
		*out = append(*out, govcLeaf{path: append([]string{}, path...), key: a.Key, val: val})
	}
}

func govcValid(s string) string { // every invalid byte becomes U+FFFD
	var sb strings.Builder
	for i := 0; i < len(s); {
		r, n := utf8.DecodeRuneInString(s[i:])
		if r == utf8.RuneError && n == 1 {
			sb.WriteRune(utf8.RuneError)
		} else {
			sb.WriteString(s[i : i+n])
		}
		i += n
	}
	return sb.String()
}

// an independent tokenizer for the text format: key=value tokens separated by single spaces
func govcTokens(line string) ([][2]string, error) {
	if !strings.HasSuffix(line, "\n") || strings.Count(line, "\n") != 1 {
		return nil, errors.New("not exactly one newline-terminated line")
	}
	s := line[:len(line)-1]
	var out [][2]string
	part := func() (string, error) {
		if s == "" {
			return "", errors.New("empty token part")
		}
		if s[0] == '"' {
			q, err := strconv.QuotedPrefix(s)
			if err != nil {
				return "", err
			}
			s = s[len(q):]
			return strconv.Unquote(q)
		}
		i := 0
		for i < len(s) && s[i] != ' ' && s[i] != '=' && s[i] != '"' {
			i++
		}
		if i == 0 {
			return "", fmt.Errorf("empty bare run at %q", s)
		}
		p := s[:i]
		s = s[i:]
		for _, r := range p {
			if r == ' ' || r == '\t' || r == '\n' || r == '\r' || r == 0x85 || r == 0xA0 || r == 0x2028 || r == 0x2029 || r == 0x3000 {
				return "", fmt.Errorf("whitespace inside bare run %q", p)
			}
		}
		return p, nil
	}
	for {
		k, err := part()
		if err != nil {
			return nil, err
		}
		if s == "" || s[0] != '=' {
			return nil, fmt.Errorf("missing '=' after key %q", k)
		}
		s = s[1:]
		v, err := part()
		if err != nil {
			return nil, err
		}
		out = append(out, [2]string{k, v})
		if s == "" {
			return out, nil
		}
		if s[0] != ' ' {
			return nil, fmt.Errorf("junk after value of %q: %q", k, s)
		}
		s = s[1:]
	}
}

type govcRec struct {
	mu       sync.Mutex
	writes   [][]byte
	inflight int32
	overlap  int32
	slow     bool
}

func (w *govcRec) Write(p []byte) (int, error) {
	if atomic.AddInt32(&w.inflight, 1) > 1 {
		atomic.AddInt32(&w.overlap, 1)
	}
	if w.slow {
		time.Sleep(200 * time.Microsecond)
	}
	w.mu.Lock()
	w.writes = append(w.writes, append([]byte{}, p...))
	w.mu.Unlock()
	atomic.AddInt32(&w.inflight, -1)
	return len(p), nil
}

func govcNewHandler(kind string, w io.Writer, level slog.Level) Handler {
	o := NewOptions(level, false, false)
	switch kind {
	case "json":
		return NewJsonHandler(w, o)
	case "text":
		return NewTextHandler(w, o)
	}
	return NewNanoHandler(w, o)
}

func govcStripTime(kind, line string) string {
	switch kind {
	case "json":
		if i := strings.Index(line, `","level"`); i > 0 {
			return line[i:]
		}
	case "text":
		if i := strings.Index(line, " level="); i > 0 {
			return line[i:]
		}
	default:
		if len(line) > 19 {
			return line[19:]
		}
	}
	return line
}

func TestGovcReplay(t *testing.T) {
	ob := os.Getenv("GOVC_OBLIGATION")
	found := 0
	report := func(f string, a ...any) {
		found++
		if found <= 6 {
			fmt.Printf("REPRODUCED obligation=%s: %s\n", ob, fmt.Sprintf(f, a...))
		}
	}
	emptyGroup := slog.Group("")
	attrSets := [][]slog.Attr{
		{slog.Int("id", 7)},
		{slog.String("user", "bob"), slog.Int("n", 1)},
		{slog.String("s p", "a b=c\"d\\e"), slog.String("bad\xff", "x\xc3\x28\x00\x1f  ")},
		{emptyGroup},
		{emptyGroup, slog.Int("after", 2)},
		{slog.Group("g", slog.Int("a", 1), emptyGroup, slog.String("b", ""))},
		{slog.Group("", slog.Int("in", 3))},
		{slog.Any("lv", govcLV{slog.GroupValue(slog.Int("x", 1), slog.String("y", "z w"))})},
		{slog.Any("", govcLV{slog.GroupValue()})},
		{slog.Any("err", errors.New("boom \x1b[31m\"q\" \xff"))},
	}
	chains := [][]govcOp{
		{},
		{{attrs: attrSets[0]}},
		{{group: "req"}},
		{{attrs: attrSets[1]}, {attrs: attrSets[0]}},
		{{group: "req"}, {attrs: attrSets[1]}},
		{{attrs: attrSets[0]}, {group: "g1"}, {attrs: attrSets[3]}},
		{{group: "a"}, {group: "b c"}, {attrs: attrSets[2]}},
		{{attrs: attrSets[1]}, {attrs: attrSets[5]}, {group: "deep"}},
	}
	childOps := []govcOp{{attrs: attrSets[0]}, {attrs: attrSets[1]}, {group: "db"}, {group: "io"}, {attrs: attrSets[4]}, {attrs: attrSets[7]}}
	apply := func(l *Logger, op govcOp) *Logger {
		if op.group != "" {
			return l.WithGroup(op.group)
		}
		args := make([]any, len(op.attrs))
		for i, a := range op.attrs {
			args[i] = a
		}
		return l.With(args...)
	}
	logOne := func(l *Logger, call []slog.Attr) {
		args := make([]any, len(call))
		for i, a := range call {
			args[i] = a
		}
		l.Info("m s g", args...)
	}
	for _, kind := range []string{"json", "text", "nano"} {
		for ci, chain := range chains {
			for _, call := range attrSets {
				if found > 6 {
					break
				}
				// the tree: parent = root.chain, children = parent.op for every childOp, all derived before anything logs
				w := &govcRec{}
				root := New(govcNewHandler(kind, w, LevelInfo))
				parent := root
				for _, op := range chain {
					parent = apply(parent, op)
				}
				nodes := []*Logger{parent}
				nodeChains := [][]govcOp{chain}
				for _, op := range childOps {
					nodes = append(nodes, apply(parent, op))
					nodeChains = append(nodeChains, append(append([]govcOp{}, chain...), op))
				}
				for k, l := range nodes {
					before := len(w.writes)
					logOne(l, call)
					l.Debug("below threshold")
					if got := len(w.writes) - before; got != 1 {
						report("C02: %s chain#%d node#%d: %d Write calls for one Info record plus one Debug record below the threshold, want 1", kind, ci, k, got)
						continue
					}
					line := string(w.writes[len(w.writes)-1])
					if !strings.HasSuffix(line, "\n") || strings.Count(line, "\n") != 1 {
						report("C02: %s chain#%d node#%d: the Write does not carry exactly one whole line: %q", kind, ci, k, line)
					}
					// C03: isolated replay
					w2 := &govcRec{}
					alone := New(govcNewHandler(kind, w2, LevelInfo))
					for _, op := range nodeChains[k] {
						alone = apply(alone, op)
					}
					logOne(alone, call)
					if len(w2.writes) == 1 && govcStripTime(kind, line) != govcStripTime(kind, string(w2.writes[0])) {
						report("C03: %s chain#%d node#%d writes %q, a logger built alone by the same chain writes %q", kind, ci, k, govcStripTime(kind, line), govcStripTime(kind, string(w2.writes[0])))
					}
					// expected leaves: chain attrs under the groups open at that point, then the call's attrs
					var leaves []govcLeaf
					var path []string
					for _, op := range nodeChains[k] {
						if op.group != "" {
							path = append(append([]string{}, path...), op.group)
						} else {
							govcFlatten(path, op.attrs, &leaves)
						}
					}
					govcFlatten(path, call, &leaves)
					switch kind {
					case "json":
						var m map[string]any
						if err := json.Unmarshal([]byte(line), &m); err != nil {
							report("C01: json chain#%d node#%d: line is not one JSON object (%v): %q", ci, k, err, line)
							continue
						}
						want := map[string]any{}
						for _, lf := range leaves {
							cur := want
							for _, p := range lf.path {
								nx, ok := cur[govcValid(p)].(map[string]any)
								if !ok {
									nx = map[string]any{}
									cur[govcValid(p)] = nx
								}
								cur = nx
							}
							switch v := lf.val.(type) {
							case int64:
								cur[govcValid(lf.key)] = float64(v)
							case string:
								cur[govcValid(lf.key)] = govcValid(v)
							}
						}
						// groups opened by WithGroup appear even when empty
						cur := want
						for _, p := range path {
							nx, ok := cur[govcValid(p)].(map[string]any)
							if !ok {
								nx = map[string]any{}
								cur[govcValid(p)] = nx
							}
							cur = nx
						}
						got := map[string]any{}
						for key, v := range m {
							if key != "time" && key != "level" && key != "msg" {
								got[key] = v
							}
						}
						if m["msg"] != "m s g" || m["level"] != "INFO" || !reflect.DeepEqual(got, want) {
							report("C01: json chain#%d node#%d decodes to %v (msg %v, level %v), want members %v", ci, k, got, m["msg"], m["level"], want)
						}
					case "text":
						toks, err := govcTokens(line)
						if err != nil {
							report("C13: text chain#%d node#%d: line does not tokenise (%v): %q", ci, k, err, line)
							continue
						}
						var want [][2]string
						for _, lf := range leaves {
							key := strings.Join(append(append([]string{}, lf.path...), lf.key), ".")
							if len(lf.path) > 0 && lf.key == "" {
								key = strings.Join(lf.path, ".") + "."
							}
							want = append(want, [2]string{key, fmt.Sprint(lf.val)})
						}
						if len(toks) < 3 || toks[0][0] != "time" || toks[1] != [2]string{"level", "INFO"} || toks[2] != [2]string{"msg", "m s g"} {
							report("C13: text chain#%d node#%d: fixed tokens wrong: %q", ci, k, toks)
						} else if !reflect.DeepEqual(append([][2]string{}, toks[3:]...), append([][2]string{}, want...)) {
							report("C13: text chain#%d node#%d: attribute tokens %q, want %q", ci, k, toks[3:], want)
						}
					}
				}
			}
		}
	}
	// C02: the level gate, for thresholds between and below the named levels, through root and derived loggers
	for _, kind := range []string{"json", "text", "nano"} {
		for _, th := range []slog.Level{-8, -4, -1, 0, 1, 4, 8, 12, 16, 17} {
			w := &govcRec{}
			root := New(govcNewHandler(kind, w, th))
			for _, l := range []*Logger{root, root.With("a", 1).WithGroup("g")} {
				before := len(w.writes)
				l.Debug("d")
				l.Debugf("%s", "d")
				l.Info("i")
				l.Infof("%s", "i")
				l.Warn("w")
				l.Warnf("%s", "w")
				l.Error("e")
				l.Errorf("%s", "e")
				want := 0
				for _, lv := range []slog.Level{LevelDebug, LevelInfo, LevelWarn, LevelError} {
					if lv >= th {
						want += 2
					}
				}
				if got := len(w.writes) - before; got != want {
					report("C02: %s threshold %d: %d Write calls for Debug/Debugf/Info/Infof/Warn/Warnf/Error/Errorf, want %d (one per record at or above the threshold)", kind, th, got, want)
				}
			}
		}
	}
	// C02: loggers of one family never overlap their Writes, one Write per record
	for _, kind := range []string{"json", "text", "nano"} {
		w := &govcRec{slow: true}
		root := New(govcNewHandler(kind, w, LevelInfo))
		derived := []*Logger{root, root.With("a", 1), root.WithGroup("g"), root.With("a", 1).WithGroup("h").With("b", 2)}
		var wg sync.WaitGroup
		const per = 60
		for _, l := range derived {
			wg.Add(1)
			go func(l *Logger) {
				defer wg.Done()
				d := l.With("late", true)
				for i := 0; i < per; i++ {
					l.Info("x", "i", i)
					d.Warn(strings.Repeat("y", 40))
				}
			}(l)
		}
		wg.Wait()
		if w.overlap > 0 {
			report("C02: %s: %d Write calls entered the destination while another Write of the same family was in progress", kind, w.overlap)
		}
		if len(w.writes) != 2*per*len(derived) {
			report("C02: %s: %d Write calls for %d records", kind, len(w.writes), 2*per*len(derived))
		}
		for _, p := range w.writes {
			if !bytes.HasSuffix(p, []byte("\n")) || bytes.Count(p, []byte("\n")) != 1 {
				report("C02: %s: a Write carried %q, not one whole line", kind, p)
				break
			}
		}
	}
	if found > 0 {
		t.Fatalf("%d violations on the real code", found)
	}
}
