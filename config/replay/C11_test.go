// package-dir: util/netutil
package netutil

// Replay harness for C11. State builder: Add/Remove histories (short, and crossing the 256-entry list->maps switch
// with removed slots before and at the switch). Probes: first/last address of each range and their outside
// neighbours, as 4-byte and as 16-byte slices (the form is taken from the model's len(ip) when it gives one).
// Oracle: a plain set of (masked address, prefix length) pairs.

import (
	"encoding/binary"
	"encoding/json"
	"fmt"
	"net"
	"os"
	"testing"
)

type govcPfx struct {
	net  uint32
	ones int
}

type govcOracle struct {
	set map[govcPfx]bool
	all bool
}

func govcMask(ones int) uint32 {
	if ones == 0 {
		return 0
	}
	return ^uint32(0) << (32 - ones)
}

func (o *govcOracle) contains(x uint32) bool {
	if o.all {
		return true
	}
	for p := range o.set {
		if x&govcMask(p.ones) == p.net {
			return true
		}
	}
	return false
}

func govcCIDR(ip uint32, ones int) *net.IPNet {
	b := make(net.IP, 4)
	binary.BigEndian.PutUint32(b, ip)
	return &net.IPNet{IP: b, Mask: net.CIDRMask(ones, 32)}
}

func TestGovcReplay(t *testing.T) {
	var model map[string]string
	json.Unmarshal([]byte(os.Getenv("GOVC_MODEL")), &model)
	ob := os.Getenv("GOVC_OBLIGATION")
	forms := []int{4, 16}
	if model["(sl.len p_ip)"] == "16" {
		forms = []int{16}
	}
	type op struct {
		add  bool
		ip   uint32
		ones int
	}
	var hists [][]op
	hists = append(hists, []op{{true, 0x0a000000, 8}})
	hists = append(hists, []op{{true, 0x0a010203, 24}, {true, 0xc0a80000, 16}, {false, 0x0a0102ff, 24}, {true, 0, 0}, {false, 0, 0}})
	// crossing the switch: 300 adds with holes
	var h []op
	for i := 0; i < 300; i++ {
		h = append(h, op{true, 0x0b000000 + uint32(i)<<8, 24})
		if i%7 == 3 {
			h = append(h, op{false, 0x0b000000 + uint32(i-1)<<8, 24})
		}
	}
	h = append(h, op{true, 0x80000000, 1}, op{false, 0x0b00ff00, 24})
	hists = append(hists, h)
	// duplicates in list mode (added twice, removed once: gone), also with another range in between
	hists = append(hists, []op{{true, 0x0a010200, 24}, {true, 0x0a010200, 24}, {false, 0x0a010200, 24}})
	hists = append(hists, []op{{true, 0xc0a80700, 24}, {true, 0x0a000000, 8}, {true, 0xc0a807ff, 24}, {false, 0xc0a80700, 24}})
	// /1 ranges across the switch
	var h1 []op
	h1 = append(h1, op{true, 0x80000000, 1})
	for i := 0; i < 300; i++ {
		h1 = append(h1, op{true, 0x0c000000 + uint32(i)<<8, 32})
	}
	h1 = append(h1, op{true, 0x00000000, 1}, op{false, 0x80000000, 1})
	hists = append(hists, h1)
	found := 0
	// invalid arguments change nothing (and are rejected)
	{
		f := NewIPv4Filter()
		f.Add(govcCIDR(0x0a000000, 8))
		f.Add(govcCIDR(0, 0))
		for _, bad := range []*net.IPNet{
			{IP: net.ParseIP("::"), Mask: net.CIDRMask(0, 128)},
			{IP: net.IPv4(10, 0, 0, 0).To4(), Mask: net.IPMask{255, 0, 255, 0}},
			{IP: net.IPv4(10, 0, 0, 0).To4(), Mask: nil},
			{IP: net.ParseIP("2001:db8::"), Mask: net.CIDRMask(32, 128)},
		} {
			errA, errR := f.Add(bad), f.Remove(bad)
			if errA == nil || errR == nil {
				found++
				fmt.Printf("REPRODUCED obligation=%s: Add/Remove(%v) returned %v / %v, want ErrInvalidIPv4CIDR\n", ob, bad, errA, errR)
			}
			if !f.Contains(net.IPv4(192, 168, 0, 1)) {
				found++
				fmt.Printf("REPRODUCED obligation=%s: after Remove(%v) (not an IPv4 CIDR) 0.0.0.0/0 no longer matches\n", ob, bad)
				break
			}
		}
	}
	for hi, hist := range hists {
		f := NewIPv4Filter()
		or := &govcOracle{set: map[govcPfx]bool{}}
		var probes []uint32
		for _, o := range hist {
			c := govcCIDR(o.ip, o.ones)
			if o.add {
				if err := f.Add(c); err != nil {
					t.Fatal(err)
				}
			} else if err := f.Remove(c); err != nil {
				t.Fatal(err)
			}
			if o.ones == 0 {
				or.all = o.add
			} else if o.add {
				or.set[govcPfx{o.ip & govcMask(o.ones), o.ones}] = true
			} else {
				delete(or.set, govcPfx{o.ip & govcMask(o.ones), o.ones})
			}
			first := o.ip & govcMask(o.ones)
			last := first | ^govcMask(o.ones)
			probes = append(probes, first, last, first-1, last+1)
		}
		for _, x := range probes {
			for _, form := range forms {
				ip := make(net.IP, 4)
				binary.BigEndian.PutUint32(ip, x)
				if form == 16 {
					ip = ip.To16()
				}
				if got, want := f.Contains(ip), or.contains(x); got != want {
					found++
					if found <= 5 {
						fmt.Printf("REPRODUCED obligation=%s: history %d (%d ops): Contains(%v as %d bytes) = %v, set-of-prefixes model says %v\n", ob, hi, len(hist), ip, form, got, want)
					}
				}
			}
		}
	}
	if found > 0 {
		t.Fatalf("%d violations of C11 on the real code", found)
	}
}
