// package-dir: logger
package logger

// Replay harness for C01. State builder: derivation chains of With / WithGroup on a JSON logger; inputs: attribute
// trees over keyed / inline / empty groups, LogValuer values resolving to groups, and strings over awkward bytes.
// Every written line must be exactly one newline-terminated JSON object (encoding/json is the judge) and decode to
// the expected members. The obligation and the model are only reported; the corpus is fixed.

import (
	"bytes"
	"encoding/json"
	"fmt"
	"log/slog"
	"os"
	"strings"
	"testing"
)

type govcValuer struct{ v slog.Value }

func (g govcValuer) LogValue() slog.Value { return g.v }

func TestGovcReplay(t *testing.T) {
	ob := os.Getenv("GOVC_OBLIGATION")
	found := 0
	check := func(what string, run func(l *Logger)) {
		var buf bytes.Buffer
		l := New(NewJsonHandler(&buf, NewOptions(LevelInfo, false, false)))
		run(l)
		out := buf.String()
		for _, line := range strings.SplitAfter(out, "\n") {
			if line == "" {
				continue
			}
			var m map[string]any
			if !strings.HasSuffix(line, "\n") || json.Unmarshal([]byte(line), &m) != nil {
				found++
				if found <= 6 {
					fmt.Printf("REPRODUCED obligation=%s: %s writes a line that is not one JSON object: %q\n", ob, what, line)
				}
			}
		}
	}
	empty := slog.Group("")
	check(`With(slog.Group("")).Info("m","k",1)`, func(l *Logger) { l.With(empty).Info("m", "k", 1) })
	check(`Info with nested group g{Group(""), b}`, func(l *Logger) { l.Info("m", slog.Group("g", empty, slog.Int("b", 2))) })
	check(`Info with g{a, Group("")}`, func(l *Logger) { l.Info("m", slog.Group("g", slog.Int("a", 1), empty)) })
	check(`LogValuer resolving to an empty inline group after another attr`, func(l *Logger) {
		l.Info("m", "a", 1, slog.Any("", govcValuer{slog.GroupValue()}), "b", 2)
	})
	check(`WithGroup("g").With(Group("")).Info`, func(l *Logger) { l.WithGroup("g").With(empty).Info("m", "x", 1) })
	check(`With(a).With(Group("")).WithGroup("h").Info`, func(l *Logger) { l.With("a", 1).With(empty).WithGroup("h").Info("m") })
	check(`inline group with members`, func(l *Logger) { l.With(slog.Group("", slog.Int("p", 1))).Info("m", slog.Group("", slog.Int("q", 2))) })
	check(`awkward strings`, func(l *Logger) {
		l.Info("a\"b\\c\n\r\t\x00\x1f  \xff", "k\"\n", "v\x7f\xc3\x28")
	})
	if found > 0 {
		t.Fatalf("%d violations of C01 on the real code", found)
	}
}
