// package-dir: httpd
package httpd

// Replay harness for C04 (router dispatch). Injected with `go test -overlay`; nothing is written to /repo.
// Inputs: GOVC_OBLIGATION (failed obligation), GOVC_MODEL (JSON: p_path, p_method from the solver's candidate
// model). States (route tables, parameter-slice capacities) come from a fixed corpus; the request path and method
// come from the model, plus the model path with single-byte edits.

import (
	"encoding/json"
	"fmt"
	"net/http"
	"net/http/httptest"
	"net/url"
	"os"
	"strings"
	"testing"
)

var govcTables = [][][2]string{
	{{"/", "GET"}},
	{{"/a", "GET"}, {"/a/:x", "GET"}, {"/a/*", "GET"}},
	{{"/:p", "*"}, {"/s/*", "POST"}},
	{{"/u/:a/:b", "GET"}, {"/u/:a", "POST"}},
	{{"/*", "GET"}},
	{{"/files/:name", "GET"}, {"/files/*", "GET"}, {"/files/:name/meta", "GET"}},
	{{"/aaa//bbb", "GET"}, {"/x//:id", "GET"}, {"/y//*", "*"}, {"/a/:x", "GET"}, {"/a//b", "GET"}},
	{{"/", "POST"}, {"/:p", "GET"}, {"/lit", "*"}, {"/lit", "GET"}},
}

// ---- reference router, written from the property statement (greedy walk, no backtracking) ----
type govcRefNode struct {
	lit   map[string]*govcRefNode
	param *govcRefNode
	any   *govcRefNode
	meth  map[string]string // method -> route tag
	names map[string][]string
}

func govcRefBuild(table [][2]string) *govcRefNode {
	root := &govcRefNode{}
	for _, r := range table {
		n := root
		var names []string
		for _, seg := range strings.Split(r[0], "/") {
			if seg == "" {
				continue
			}
			if seg == "*" {
				if n.any == nil {
					n.any = &govcRefNode{}
				}
				n = n.any
				names = append(names, routeParamAny)
				break
			}
			if seg[0] == ':' {
				if n.param == nil {
					n.param = &govcRefNode{}
				}
				n = n.param
				names = append(names, seg[1:])
				continue
			}
			if n.lit == nil {
				n.lit = map[string]*govcRefNode{}
			}
			if n.lit[seg] == nil {
				n.lit[seg] = &govcRefNode{}
			}
			n = n.lit[seg]
		}
		if n.meth == nil {
			n.meth, n.names = map[string]string{}, map[string][]string{}
		}
		n.meth[r[1]] = r[1] + " " + r[0]
		n.names[r[1]] = names
	}
	return root
}

func (n *govcRefNode) pick(method string) (tag string, names []string, ok bool) {
	if n == nil || n.meth == nil {
		return "", nil, false
	}
	if t, ok := n.meth[method]; ok {
		return t, n.names[method], true
	}
	if t, ok := n.meth["*"]; ok {
		return t, n.names["*"], true
	}
	return "", nil, false
}

// govcRefRoute: the route the documented walk selects for a path that starts with '/', and the bound values
func govcRefRoute(root *govcRefNode, path, method string) (tag string, binds map[string]string) {
	if path == "/" {
		if t, _, ok := root.pick(method); ok {
			return t, map[string]string{}
		}
	}
	n := root
	var vals []string
	rest := path[1:]
	for {
		i := strings.IndexByte(rest, '/')
		seg, last := rest, true
		if i >= 0 {
			seg, last = rest[:i], false
		}
		if seg == "" && !last {
			rest = rest[i+1:]
			continue // empty segment that is not the final one
		}
		switch {
		case seg != "" && n.lit[seg] != nil:
			n = n.lit[seg]
		case n.param != nil:
			vals = append(vals, seg)
			n = n.param
		case n.any != nil:
			vals = append(vals, rest)
			t, names, ok := n.any.pick(method)
			if !ok {
				return "noroute", nil
			}
			binds = map[string]string{}
			for k, nm := range names {
				binds[nm] = vals[k]
			}
			return t, binds
		default:
			return "noroute", nil
		}
		if last {
			break
		}
		rest = rest[i+1:]
	}
	t, names, ok := n.pick(method)
	if !ok {
		return "noroute", nil
	}
	binds = map[string]string{}
	for k, nm := range names {
		if k < len(vals) {
			binds[nm] = vals[k]
		}
	}
	return t, binds
}

func govcCandidates(m map[string]string) (paths, methods []string) {
	p, hasP := m["p_path"]
	paths = append(paths, p)
	if hasP {
		for i := 0; i <= len(p) && i < 6; i++ {
			paths = append(paths, p[:i]+"/"+p[i:], p[:i]+"a"+p[i:])
		}
	}
	paths = append(paths, "", "/", "a", "//", "/a/", "/a//b", "*", "/:x", "/u/1/2", "/s/", "/files/a.txt", "/files/", "/files/a.txt/meta", "/aaa/bbb", "/aaa//bbb", "/x/7", "/y/p/q", "/a/b", "/lit", "/zzz")
	meth, ok := m["p_method"]
	if ok {
		methods = append(methods, meth)
	}
	methods = append(methods, "GET", "POST", "", "BREW")
	return
}

func TestGovcReplay(t *testing.T) {
	var model map[string]string
	json.Unmarshal([]byte(os.Getenv("GOVC_MODEL")), &model)
	ob := os.Getenv("GOVC_OBLIGATION")
	paths, methods := govcCandidates(model)
	found := 0
	report := func(format string, a ...any) {
		found++
		if found <= 5 {
			fmt.Printf("REPRODUCED obligation=%s: %s\n", ob, fmt.Sprintf(format, a...))
		}
	}
	for ti, table := range govcTables {
		for _, path := range paths {
			for _, method := range methods {
				// (1) the lookup itself, on a fresh parameter buffer sized as a fresh Mux would size it
				func() {
					root := new(treeNode)
					maxp := 0
					for _, r := range table {
						n, err := parseRoute(root, r[0], r[1], &RouteInfo{Path: r[0], Method: r[1]})
						if err != nil {
							t.Fatalf("table %d: %v", ti, err)
						}
						maxp = max(maxp, n)
					}
					params := &Params{V: make([]string, 0, maxp)}
					defer func() {
						if e := recover(); e != nil {
							report("findRoute(table %d %v, path=%q, method=%q) panics: %v", ti, table, path, method, e)
						}
					}()
					info := findRoute(root, path, method, params)
					if info != nil && len(params.K) != len(params.V) {
						report("findRoute(table %d, %q, %q): %d names, %d values", ti, path, method, len(params.K), len(params.V))
					}
				}()
				// (2) the whole dispatch: exactly one handler call, no panic
				func() {
					mux := NewMux()
					calls := 0
					for _, r := range table {
						mux.Handle(r[0], r[1], func(s *Store) { calls++ })
					}
					mux.HandleNoRoute(func(s *Store) { calls++ })
					defer func() {
						if e := recover(); e != nil {
							report("ServeHTTP(table %d %v, path=%q, method=%q) panics: %v", ti, table, path, method, e)
						}
					}()
					req := &http.Request{Method: method, URL: &url.URL{Path: path}, Header: http.Header{}}
					mux.ServeHTTP(httptest.NewRecorder(), req)
					if calls != 1 {
						report("ServeHTTP(table %d, %q, %q): %d handler calls", ti, path, method, calls)
					}
				}()
				// (3) which route, and what it sees, against the reference walk (paths with a leading slash)
				if strings.HasPrefix(path, "/") {
					func() {
						defer func() { recover() }()
						mux := NewMux()
						gotTag, gotBinds := "", map[string]string{}
						names := map[string]bool{}
						for _, r := range table {
							for _, seg := range strings.Split(r[0], "/") {
								if len(seg) > 1 && seg[0] == ':' {
									names[seg[1:]] = true
								}
							}
						}
						names[routeParamAny] = true
						for _, r := range table {
							tag := r[1] + " " + r[0]
							mux.Handle(r[0], r[1], func(s *Store) {
								gotTag = tag
								if s.I == nil || s.I.Path != r[0] || s.I.Method != r[1] {
									gotTag = tag + " (RouteInfo of another route)"
								}
								for nm := range names {
									if v, ok := s.P.Get(nm); ok {
										gotBinds[nm] = v
									}
								}
							})
						}
						mux.HandleNoRoute(func(s *Store) { gotTag = "noroute" })
						mux.ServeHTTP(httptest.NewRecorder(), &http.Request{Method: method, URL: &url.URL{Path: path}, Header: http.Header{}})
						wantTag, wantBinds := govcRefRoute(govcRefBuild(table), path, method)
						if gotTag != wantTag {
							report("table %d %v: %s %q dispatched to %q, the documented walk selects %q", ti, table, method, path, gotTag, wantTag)
						} else if wantTag != "noroute" {
							for nm, v := range wantBinds {
								if gotBinds[nm] != v {
									report("table %d: %s %q -> %s binds %s=%q, want %q", ti, method, path, wantTag, nm, gotBinds[nm], v)
								}
							}
						}
					}()
				}
			}
		}
	}
	if found > 0 {
		t.Fatalf("%d violations of C04 on the real code (%s)", found, strings.TrimSpace(ob))
	}
}
