// package-dir: httpd
package httpd

// Replay harness for C04 (router dispatch). Injected with `go test -overlay`; nothing is written to /repo.
// Inputs: GOVC_OBLIGATION (failed obligation), GOVC_MODEL (JSON: p_path, p_method from the solver's candidate
// model). States (route tables, parameter-slice capacities) come from a fixed corpus; the request path and method
// come from the model, plus the model path with single-byte edits.

import (
	"encoding/json"
	"fmt"
	"net/http"
	"net/http/httptest"
	"net/url"
	"os"
	"strings"
	"testing"
)

var govcTables = [][][2]string{
	{{"/", "GET"}},
	{{"/a", "GET"}, {"/a/:x", "GET"}, {"/a/*", "GET"}},
	{{"/:p", "*"}, {"/s/*", "POST"}},
	{{"/u/:a/:b", "GET"}, {"/u/:a", "POST"}},
	{{"/*", "GET"}},
}

func govcCandidates(m map[string]string) (paths, methods []string) {
	p, hasP := m["p_path"]
	paths = append(paths, p)
	if hasP {
		for i := 0; i <= len(p) && i < 6; i++ {
			paths = append(paths, p[:i]+"/"+p[i:], p[:i]+"a"+p[i:])
		}
	}
	paths = append(paths, "", "/", "a", "//", "/a/", "/a//b", "*", "/:x", "/u/1/2", "/s/")
	meth, ok := m["p_method"]
	if ok {
		methods = append(methods, meth)
	}
	methods = append(methods, "GET", "POST", "", "BREW")
	return
}

func TestGovcReplay(t *testing.T) {
	var model map[string]string
	json.Unmarshal([]byte(os.Getenv("GOVC_MODEL")), &model)
	ob := os.Getenv("GOVC_OBLIGATION")
	paths, methods := govcCandidates(model)
	found := 0
	report := func(format string, a ...any) {
		found++
		if found <= 5 {
			fmt.Printf("REPRODUCED obligation=%s: %s\n", ob, fmt.Sprintf(format, a...))
		}
	}
	for ti, table := range govcTables {
		for _, path := range paths {
			for _, method := range methods {
				// (1) the lookup itself, on a fresh parameter buffer sized as a fresh Mux would size it
				func() {
					root := new(treeNode)
					maxp := 0
					for _, r := range table {
						n, err := parseRoute(root, r[0], r[1], &RouteInfo{Path: r[0], Method: r[1]})
						if err != nil {
							t.Fatalf("table %d: %v", ti, err)
						}
						maxp = max(maxp, n)
					}
					params := &Params{V: make([]string, 0, maxp)}
					defer func() {
						if e := recover(); e != nil {
							report("findRoute(table %d %v, path=%q, method=%q) panics: %v", ti, table, path, method, e)
						}
					}()
					info := findRoute(root, path, method, params)
					if info != nil && len(params.K) != len(params.V) {
						report("findRoute(table %d, %q, %q): %d names, %d values", ti, path, method, len(params.K), len(params.V))
					}
				}()
				// (2) the whole dispatch: exactly one handler call, no panic
				func() {
					mux := NewMux()
					calls := 0
					for _, r := range table {
						mux.Handle(r[0], r[1], func(s *Store) { calls++ })
					}
					mux.HandleNoRoute(func(s *Store) { calls++ })
					defer func() {
						if e := recover(); e != nil {
							report("ServeHTTP(table %d %v, path=%q, method=%q) panics: %v", ti, table, path, method, e)
						}
					}()
					req := &http.Request{Method: method, URL: &url.URL{Path: path}, Header: http.Header{}}
					mux.ServeHTTP(httptest.NewRecorder(), req)
					if calls != 1 {
						report("ServeHTTP(table %d, %q, %q): %d handler calls", ti, path, method, calls)
					}
				}()
			}
		}
	}
	if found > 0 {
		t.Fatalf("%d violations of C04 on the real code (%s)", found, strings.TrimSpace(ob))
	}
}
