// package-dir: tasklane
// crash: violation
package tasklane

// Replay harness for the TaskLane properties (C06, C07, C08, C14; the same file under four names). The obligations
// are thread-local facts about goroutine bodies, whose models are not inputs; a failed obligation is replayed by
// running schedules of the real code that the property statements single out, for lane/queue sizes (1,0) (1,2) (2,0)
// (3,1) (4,2):
//   C06  every task whose PushTask returned nil is started exactly once, none whose PushTask returned an error is
//        started; also when the context is cancelled while workers are idle, busy, or between send and return;
//   C07  PushTask after cancellation returns the context's error and enqueues nothing; Wait returns once running
//        tasks have returned, leaving no lane goroutine behind;
//   C08  never more than laneSize tasks at once; a task at the head of a lane whose worker is busy is started by an
//        idle worker of another lane;
//   C14  panicking tasks (values of several dynamic types) do not stop workers; PendingTask stays within
//        0..laneSize*(queueSize+1) while Status is polled; LastPanic is one of the values panicked with.

import (
	"context"
	"errors"
	"fmt"
	"os"
	"runtime"
	"sync"
	"sync/atomic"
	"testing"
	"time"
)

type govcTask struct {
	starts  int32
	run     func()
	running *int32
	maxRun  *int32
}

func (g *govcTask) Start() {
	atomic.AddInt32(&g.starts, 1)
	if g.running != nil {
		n := atomic.AddInt32(g.running, 1)
		for {
			m := atomic.LoadInt32(g.maxRun)
			if n <= m || atomic.CompareAndSwapInt32(g.maxRun, m, n) {
				break
			}
		}
		defer atomic.AddInt32(g.running, -1)
	}
	if g.run != nil {
		g.run()
	}
}

type govcTagA struct{ x int }
type govcTagB struct{ y string }

func govcWaitFor(d time.Duration, cond func() bool) bool {
	end := time.Now().Add(d)
	for time.Now().Before(end) {
		if cond() {
			return true
		}
		time.Sleep(200 * time.Microsecond)
	}
	return cond()
}

func TestGovcReplay(t *testing.T) {
	ob := os.Getenv("GOVC_OBLIGATION")
	found := 0
	report := func(f string, a ...any) {
		found++
		if found <= 6 {
			fmt.Printf("REPRODUCED obligation=%s: %s\n", ob, fmt.Sprintf(f, a...))
		}
	}
	cfgs := [][2]int{{1, 0}, {1, 2}, {2, 0}, {3, 1}, {4, 2}}
	for _, c := range cfgs {
		lanes, qs := c[0], c[1]
		name := fmt.Sprintf("lanes=%d queue=%d", lanes, qs)
		bound := lanes * (qs + 1)

		// --- idle cancel: one task per lane, run to completion, cancel while every worker is idle (C06, C07) ---
		{
			g0 := runtime.NumGoroutine()
			ctx, cancel := context.WithCancel(context.Background())
			tl := New(ctx, lanes, qs)
			tasks := make([]*govcTask, lanes)
			for i := range tasks {
				tasks[i] = &govcTask{}
				if err := tl.PushTask(tasks[i], i); err != nil {
					report("%s: PushTask on an idle lane returned %v", name, err)
				}
			}
			if !govcWaitFor(8*time.Second, func() bool {
				for _, tk := range tasks {
					if atomic.LoadInt32(&tk.starts) == 0 {
						return false
					}
				}
				return tl.Status().PendingTask == 0
			}) {
				report("%s: accepted tasks were not all started in time on an idle lane", name)
			}
			time.Sleep(5 * time.Millisecond)
			cancel()
			waited := make(chan struct{})
			go func() { tl.Wait(); close(waited) }()
			select {
			case <-waited:
			case <-time.After(8 * time.Second):
				report("%s: Wait did not return in time after the context was cancelled on an idle lane", name)
			}
			for i, tk := range tasks {
				if n := atomic.LoadInt32(&tk.starts); n != 1 {
					report("%s: task %d was started %d times, want exactly 1 (cancel while idle)", name, i, n)
				}
			}
			late := &govcTask{}
			before := tl.Status().PendingTask
			if err := tl.PushTask(late, 0); err == nil || !errors.Is(err, context.Canceled) {
				report("%s: PushTask after cancellation returned %v, want context.Canceled", name, err)
			}
			if after := tl.Status().PendingTask; after != before {
				report("%s: PushTask after cancellation enqueued its task (PendingTask %d -> %d)", name, before, after)
			}
			time.Sleep(5 * time.Millisecond)
			if atomic.LoadInt32(&late.starts) != 0 {
				report("%s: a task whose PushTask returned an error was started", name)
			}
			if !govcWaitFor(time.Second, func() bool { return runtime.NumGoroutine() <= g0+1 }) {
				report("%s: %d goroutines left behind after Wait (started with %d)", name, runtime.NumGoroutine(), g0)
			}
		}

		// --- work sharing and the concurrency bound (C08) ---
		if lanes >= 2 {
			ctx, cancel := context.WithCancel(context.Background())
			tl := New(ctx, lanes, qs)
			var running, maxRun int32
			release := make(chan struct{})
			blocker := &govcTask{run: func() { <-release }, running: &running, maxRun: &maxRun}
			tl.PushTask(blocker, 0)
			govcWaitFor(time.Second, func() bool { return atomic.LoadInt32(&blocker.starts) == 1 })
			short := &govcTask{running: &running, maxRun: &maxRun}
			tl.PushTask(short, 0)
			if !govcWaitFor(8*time.Second, func() bool { return atomic.LoadInt32(&short.starts) == 1 }) {
				report("%s: a task at the head of lane 0 was not started in time although lane 0's worker is busy and %d worker(s) are idle", name, lanes-1)
			}
			// saturate: many short tasks on all lanes; never more than `lanes` at once
			var many []*govcTask
			for i := 0; i < 40*lanes; i++ {
				tk := &govcTask{run: func() { time.Sleep(100 * time.Microsecond) }, running: &running, maxRun: &maxRun}
				if tl.PushTask(tk, i%lanes) == nil {
					many = append(many, tk)
				}
			}
			close(release)
			govcWaitFor(10*time.Second, func() bool { return tl.Status().PendingTask == 0 })
			time.Sleep(5 * time.Millisecond)
			if m := atomic.LoadInt32(&maxRun); int(m) > lanes {
				report("%s: %d tasks were executing at once, more than laneSize", name, m)
			}
			for i, tk := range many {
				if n := atomic.LoadInt32(&tk.starts); n != 1 {
					report("%s: accepted task %d was started %d times, want 1 (context live)", name, i, n)
					break
				}
			}
			cancel()
			tl.Wait()
		}

		// --- panics of several dynamic types, Status polled concurrently (C14) ---
		{
			ctx, cancel := context.WithCancel(context.Background())
			tl := New(ctx, lanes, qs)
			a, b := &govcTagA{1}, &govcTagB{"b"}
			vals := []any{"string panic", errors.New("error panic"), 42, a, b}
			stop := make(chan struct{})
			var pollers sync.WaitGroup
			var minP, maxP int32 = 0, 0
			var badLast atomic.Value
			for p := 0; p < 3; p++ {
				pollers.Add(1)
				go func() {
					defer pollers.Done()
					for {
						select {
						case <-stop:
							return
						default:
						}
						st := tl.Status()
						if int32(st.PendingTask) > atomic.LoadInt32(&maxP) {
							atomic.StoreInt32(&maxP, int32(st.PendingTask))
						}
						if int32(st.PendingTask) < atomic.LoadInt32(&minP) {
							atomic.StoreInt32(&minP, int32(st.PendingTask))
						}
						if lp := st.LastPanic; lp != nil {
							ok := false
							for _, v := range vals {
								if lp == v {
									ok = true
								}
							}
							if !ok {
								badLast.Store(fmt.Sprintf("%T %v", lp, lp))
							}
						}
					}
				}()
			}
			var accepted []*govcTask
			for i := 0; i < 60*lanes; i++ {
				i := i
				tk := &govcTask{}
				if i%4 == 0 {
					tk.run = func() { panic(vals[(i/4)%len(vals)]) }
				}
				if tl.PushTask(tk, i%lanes) == nil {
					accepted = append(accepted, tk)
				}
			}
			if !govcWaitFor(10*time.Second, func() bool {
				for _, tk := range accepted {
					if atomic.LoadInt32(&tk.starts) == 0 {
						return false
					}
				}
				return true
			}) {
				report("%s: with panicking tasks in the mix, not every accepted task was started in time (a worker died?)", name)
			}
			close(stop)
			pollers.Wait()
			if int(maxP) > bound || minP < 0 {
				report("%s: PendingTask was seen at %d..%d, outside 0..%d", name, minP, maxP, bound)
			}
			if s := badLast.Load(); s != nil {
				report("%s: Status().LastPanic returned %v, which no task panicked with", name, s)
			}
			for i, tk := range accepted {
				if n := atomic.LoadInt32(&tk.starts); n > 1 {
					report("%s: task %d was started %d times", name, i, n)
					break
				}
			}
			if lp := tl.Status().LastPanic; lp == nil {
				report("%s: LastPanic is nil after tasks panicked", name)
			}
			cancel()
			tl.Wait()
		}
	}
	if found > 0 {
		t.Fatalf("%d violations on the real code", found)
	}
}
