// package-dir: config
package config

// Replay harness for C09/C10. Parse works on a FlagSet built by reflection, which the solver's model does not
// describe; the harness therefore replays a failed obligation by running the real Parse over a systematic set of
// histories and comparing with an oracle written from the property statements (not from the code):
//   C10 grammar: every argument vector of length 0..3 over a token set of well-formed flags and near-misses;
//   C09 priority: per field every combination of {command line, CFG_* variable, JSON, default} incl. empty values,
//       with both JSON carriers (-config file, CFG_CONFIG_B64).

import (
	"encoding/base64"
	"fmt"
	"os"
	"path/filepath"
	"reflect"
	"strconv"
	"testing"
	"time"
)

type govcCfg struct {
	B bool   `flag:"b,true"`
	N int    `flag:"n,7"`
	S string `flag:"s,def"`
}

// oracle for one argument vector: values assigned on the command line (last wins), the rest, error
func govcRef(args []string) (assign map[string]string, rest []string, bad bool) {
	assign = map[string]string{}
	isBool := map[string]bool{"b": true, "help": true}
	defined := map[string]bool{"b": true, "n": true, "s": true, "help": true, "config": true}
	i := 0
	for i < len(args) {
		a := args[i]
		if len(a) < 2 || a[0] != '-' {
			return assign, args[i:], false
		}
		body := a[1:]
		if body[0] == '-' {
			if len(body) == 1 {
				return assign, args[i+1:], false
			}
			body = body[1:]
		}
		if body == "" || body[0] == '-' || body[0] == '=' {
			return nil, nil, true
		}
		name, value, has := body, "", false
		for k := 1; k < len(body); k++ {
			if body[k] == '=' {
				name, value, has = body[:k], body[k+1:], true
				break
			}
		}
		if !defined[name] {
			return nil, nil, true
		}
		i++
		if !has {
			if isBool[name] {
				value = "true"
			} else if i < len(args) {
				value = args[i]
				i++
			} else {
				return nil, nil, true
			}
		}
		assign[name] = value
	}
	return assign, []string{}, false
}

// effective value of a field given its textual sources in priority order; ok=false: unparsable
func govcEff(kind string, texts []*string, json *string, def string) (string, bool) {
	text := def
	src := "default"
	if json != nil {
		text, src = *json, "json"
	}
	for k := len(texts) - 1; k >= 0; k-- {
		if texts[k] != nil {
			text, src = *texts[k], "text"
		}
	}
	_ = src
	switch kind {
	case "bool":
		if text == "" {
			return "false", true
		}
		v, err := strconv.ParseBool(text)
		return fmt.Sprint(v), err == nil
	case "int":
		if text == "" {
			return "0", true
		}
		v, err := strconv.ParseInt(text, 0, 64)
		return fmt.Sprint(v), err == nil
	}
	return text, true
}

func TestGovcReplay(t *testing.T) {
	ob := os.Getenv("GOVC_OBLIGATION")
	found := 0
	report := func(f string, a ...any) {
		found++
		if found <= 6 {
			fmt.Printf("REPRODUCED obligation=%s: %s\n", ob, fmt.Sprintf(f, a...))
		}
	}
	envNames := []string{"CFG_B", "CFG_N", "CFG_S", "CFG_CONFIG_B64"}
	clearEnv := func() {
		for _, e := range envNames {
			os.Unsetenv(e)
		}
	}
	defer clearEnv()
	run := func(args []string) (cfg govcCfg, rest []string, err error, panicked any) {
		defer func() { panicked = recover() }()
		f, e := NewFlagSet(&cfg)
		if e != nil {
			return cfg, nil, e, nil
		}
		err = f.Parse(args)
		return cfg, f.Args(), err, nil
	}

	// ---- C10: grammar ----
	clearEnv()
	toks := []string{"-b", "--b", "-b=false", "-b=", "-n", "-n=5", "--n=0x10", "-n=", "-n=abc", "-s", "-s=x=y", "--s=", "--", "-", "---n", "-=", "--=v", "-x", "v", "5", "-help=false"}
	var vec func(prefix []string, n int)
	vec = func(prefix []string, n int) {
		args := append([]string{}, prefix...)
		assign, rest, bad := govcRef(args)
		cfg, gotRest, err, pan := run(append([]string{}, args...))
		switch {
		case pan != nil:
			report("Parse(%q) panicked: %v", args, pan)
		default:
			wantB, okB := "true", true
			wantN, okN := "7", true
			wantS := "def"
			if !bad {
				if v, ok := assign["b"]; ok {
					wantB, okB = govcEff("bool", []*string{&v}, nil, "true")
				}
				if v, ok := assign["n"]; ok {
					wantN, okN = govcEff("int", []*string{&v}, nil, "7")
				}
				if v, ok := assign["s"]; ok {
					wantS = v
				}
				if v, ok := assign["help"]; ok {
					if _, okh := govcEff("bool", []*string{&v}, nil, "false"); !okh {
						bad = true
					}
				}
			}
			wantErr := bad || !okB || !okN
			if wantErr != (err != nil) {
				report("Parse(%q): err=%v, oracle says error=%v", args, err, wantErr)
			} else if err == nil {
				if fmt.Sprint(cfg.B) != wantB || fmt.Sprint(cfg.N) != wantN || cfg.S != wantS {
					report("Parse(%q) assigned {B:%v N:%v S:%q}, oracle {B:%s N:%s S:%q}", args, cfg.B, cfg.N, cfg.S, wantB, wantN, wantS)
				}
				if !reflect.DeepEqual(append([]string{}, gotRest...), append([]string{}, rest...)) {
					report("Parse(%q): Args()=%q, oracle %q", args, gotRest, rest)
				}
			}
		}
		if n == 0 || found > 6 {
			return
		}
		for _, tk := range toks {
			vec(append(prefix, tk), n-1)
		}
	}
	vec(nil, 3)

	// ---- C09: priority of sources, per field, both JSON carriers ----
	dir := t.TempDir()
	str := func(s string) *string { return &s }
	opts := func(vals ...string) []*string {
		out := []*string{nil}
		for _, v := range vals {
			out = append(out, str(v))
		}
		return out
	}
	for _, carrier := range []string{"file", "b64", "both"} {
		for _, cli := range opts("3", "") {
			for _, env := range opts("4", "") {
				for _, js := range opts("5") {
					for _, scli := range opts("c", "") {
						for _, senv := range opts("e", "") {
							if found > 6 {
								break
							}
							clearEnv()
							var args []string
							jsonDoc := "{"
							if js != nil {
								jsonDoc += `"N":` + *js + `,`
							}
							jsonDoc += `"S":"j"}`
							other := `{"N":99,"S":"other"}`
							switch carrier {
							case "file", "both":
								p := filepath.Join(dir, "c.json")
								os.WriteFile(p, []byte(jsonDoc), 0644)
								args = append(args, "-config", p)
								if carrier == "both" {
									os.Setenv("CFG_CONFIG_B64", base64.StdEncoding.EncodeToString([]byte(other)))
								}
							case "b64":
								os.Setenv("CFG_CONFIG_B64", base64.StdEncoding.EncodeToString([]byte(jsonDoc)))
							}
							if cli != nil {
								args = append(args, "-n="+*cli)
							}
							if scli != nil {
								args = append(args, "--s", *scli)
							}
							if env != nil {
								os.Setenv("CFG_N", *env)
							}
							if senv != nil {
								os.Setenv("CFG_S", *senv)
							}
							wantN, _ := govcEff("int", []*string{cli, env}, js, "7")
							wantS, _ := govcEff("string", []*string{scli, senv}, str("j"), "def")
							cfg, _, err, pan := run(args)
							if pan != nil || err != nil {
								report("Parse(%q) carrier=%s env(N=%v S=%v): err=%v panic=%v", args, carrier, env != nil, senv != nil, err, pan)
							} else if fmt.Sprint(cfg.N) != wantN || cfg.S != wantS {
								report("Parse(%q) carrier=%s CFG_N=%s CFG_S=%s json=%s: got {N:%d S:%q}, oracle {N:%s S:%q}", args, carrier, govcShow(env), govcShow(senv), jsonDoc, cfg.N, cfg.S, wantN, wantS)
							}
						}
					}
				}
			}
		}
	}
	// ---- C09: the part built by reflection (NewFlagSet / parseStructFields, outside the verified subset): every field,
	// however deeply nested and in both tag syntaxes, is reachable by its own flag and by its own CFG_* variable ----
	type govcDeep struct {
		Name   string `flag:"name,nm"`
		Server struct {
			Addr string `flag:"|addr|:80"`
			TLS  struct {
				Port    int           `flag:"|tls-port|443"`
				Timeout time.Duration `flag:"tls-timeout,10s"`
				Inner   struct {
					On bool `flag:"|deep-on|false"`
				}
			}
		}
	}
	deepEnv := []string{"CFG_NAME", "CFG_SERVER_ADDR", "CFG_SERVER_TLS_PORT", "CFG_SERVER_TLS_TIMEOUT", "CFG_SERVER_TLS_INNER_ON", "CFG_TLS_PORT", "CFG_TLS_TIMEOUT", "CFG_INNER_ON", "CFG_ADDR", "CFG_PORT"}
	clearDeep := func() {
		for _, e := range deepEnv {
			os.Unsetenv(e)
		}
	}
	defer clearDeep()
	for _, viaEnv := range []bool{false, true} {
		clearEnv()
		clearDeep()
		var cfg govcDeep
		f, e := NewFlagSet(&cfg)
		if e != nil {
			report("NewFlagSet on a nested struct: %v", e)
			break
		}
		var args []string
		if viaEnv {
			os.Setenv("CFG_NAME", "n2")
			os.Setenv("CFG_SERVER_ADDR", ":81")
			os.Setenv("CFG_SERVER_TLS_PORT", "9443")
			os.Setenv("CFG_SERVER_TLS_TIMEOUT", "3s")
			os.Setenv("CFG_SERVER_TLS_INNER_ON", "true")
			os.Setenv("CFG_TLS_PORT", "1") // variables of other paths must not apply
			os.Setenv("CFG_INNER_ON", "false")
		} else {
			args = []string{"-name=n2", "--addr", ":81", "-tls-port=9443", "-tls-timeout", "3s", "-deep-on"}
		}
		if err := f.Parse(args); err != nil {
			report("Parse(%q) on a nested struct (env=%v): %v", args, viaEnv, err)
			continue
		}
		if cfg.Name != "n2" || cfg.Server.Addr != ":81" || cfg.Server.TLS.Port != 9443 || cfg.Server.TLS.Timeout != 3*time.Second || !cfg.Server.TLS.Inner.On {
			report("nested struct, values given by %s: got %+v, want Name=n2 Addr=:81 Port=9443 Timeout=3s On=true", map[bool]string{false: "flags", true: "their own CFG_* variables"}[viaEnv], cfg)
		}
	}
	clearDeep()
	{
		var cfg govcDeep
		if f, e := NewFlagSet(&cfg); e == nil && f.Parse(nil) == nil {
			if cfg.Name != "nm" || cfg.Server.Addr != ":80" || cfg.Server.TLS.Port != 443 || cfg.Server.TLS.Timeout != 10*time.Second || cfg.Server.TLS.Inner.On {
				report("nested struct, nothing given: got %+v, want the tag defaults", cfg)
			}
		}
	}
	if found > 0 {
		t.Fatalf("%d violations of C09/C10 on the real code", found)
	}
}

func govcShow(p *string) string {
	if p == nil {
		return "<unset>"
	}
	return strconv.Quote(*p)
}
