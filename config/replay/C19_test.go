// package-dir: util/ioutil
package ioutil

// Replay harness for C19. Histories: sequences of Write / WriteString calls of varying sizes through a wrapped writer
// that accepts everything, accepts only a prefix (short write with an error), or fails outright; with a consumer that
// is parked on Status() all the time, that starts late, that is slow, and with no consumer at all. Oracle (from the
// property statement): Size() is the sum of the byte counts the wrapped writer reported; a Write never waits for a
// consumer; the values received are non-decreasing and each equals Size() after some completed write; after Close the
// channel is closed and the last value received is the final total.

import (
	"errors"
	"fmt"
	"io"
	"os"
	"testing"
	"time"
)

type govcLimited struct {
	room      int
	total     int
	useString bool
}

func (g *govcLimited) Write(p []byte) (int, error) {
	n := len(p)
	var err error
	if n > g.room {
		n, err = g.room, errors.New("no space left")
	}
	g.room -= n
	g.total += n
	return n, err
}

type govcLimitedS struct{ govcLimited }

func (g *govcLimitedS) WriteString(s string) (int, error) { return g.Write([]byte(s)) }

func TestGovcReplay(t *testing.T) {
	ob := os.Getenv("GOVC_OBLIGATION")
	found := 0
	report := func(f string, a ...any) {
		found++
		if found <= 6 {
			fmt.Printf("REPRODUCED obligation=%s: %s\n", ob, fmt.Sprintf(f, a...))
		}
	}
	sizes := [][]int{{5}, {100, 3, 4, 5}, {1, 2, 3, 4, 5, 6, 7, 8, 9}, {0, 7, 0}, {64, 64, 64}}
	for _, room := range []int{1 << 20, 70, 7, 0} {
		for _, stringer := range []bool{false, true} {
			for _, consumer := range []string{"parked", "late", "slow", "none"} {
				for si, seq := range sizes {
					if found > 6 {
						break
					}
					var under io.Writer
					var tot *int
					if stringer {
						u := &govcLimitedS{govcLimited{room: room}}
						under, tot = u, &u.total
					} else {
						u := &govcLimited{room: room}
						under, tot = u, &u.total
					}
					pw := NewProgressWriter(under)
					var got []int
					sizesSeen := map[int]bool{0: true}
					done := make(chan struct{})
					recv := func() {
						for v := range pw.Status() {
							got = append(got, v)
							if consumer == "slow" {
								time.Sleep(2 * time.Millisecond)
							}
						}
						close(done)
					}
					if consumer == "parked" || consumer == "slow" {
						go recv()
						time.Sleep(time.Millisecond)
					}
					for k, n := range seq {
						buf := make([]byte, n)
						start := time.Now()
						if k%2 == 0 {
							pw.Write(buf)
						} else {
							pw.WriteString(string(buf))
						}
						if d := time.Since(start); d > 3*time.Second {
							report("a write of %d bytes took %v with consumer=%s: the writer waited for the consumer", n, d, consumer)
						}
						if pw.Size() != *tot {
							report("room=%d stringer=%v seq#%d: after write %d Size()=%d, the wrapped writer reported %d bytes in total", room, stringer, si, k, pw.Size(), *tot)
						}
						sizesSeen[pw.Size()] = true
						if consumer == "parked" {
							time.Sleep(200 * time.Microsecond)
						}
					}
					if consumer == "none" {
						continue // Close would block for ever without a consumer: that is the documented behaviour
					}
					if consumer == "late" {
						go recv()
					}
					closed := make(chan struct{})
					go func() { pw.Close(); close(closed) }()
					select {
					case <-done:
					case <-time.After(10 * time.Second):
						report("room=%d consumer=%s seq#%d: Status() was not closed in time after Close", room, consumer, si)
						continue
					}
					<-closed
					if len(got) == 0 || got[len(got)-1] != pw.Size() {
						report("room=%d consumer=%s seq#%d: values received %v, the last one must be the final total %d", room, consumer, si, got, pw.Size())
					}
					for i, v := range got {
						if i > 0 && v < got[i-1] {
							report("room=%d consumer=%s seq#%d: values received %v are not non-decreasing", room, consumer, si, got)
							break
						}
						if !sizesSeen[v] {
							report("room=%d consumer=%s seq#%d: received %d, which was never the value of Size() after a completed write (%v)", room, consumer, si, v, got)
							break
						}
					}
				}
			}
		}
	}
	if found > 0 {
		t.Fatalf("%d violations of C19 on the real code", found)
	}
}
