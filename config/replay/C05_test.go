// package-dir: httpd
package httpd

// Replay harness for C05 (pooled per-request state). Histories come from a fixed corpus of request sequences on
// one Mux served from one goroutine (maximal Store reuse), including routes registered between requests; every
// handler looks up every parameter name of the table. Each observation is compared with the same request on a
// fresh Mux with the same routes.

import (
	"fmt"
	"net/http"
	"net/http/httptest"
	"net/url"
	"os"
	"testing"
)

type govcStep struct {
	route  [2]string // register this route (path, method) if non-empty
	method string
	path   string
}

var govcNames = []string{"a", "b", "x", "y", routeParamAny}

func govcObserve(mux *Mux, method, path string) (obs string) {
	defer func() {
		if e := recover(); e != nil {
			obs = fmt.Sprintf("PANIC %v", e)
		}
	}()
	rec := httptest.NewRecorder()
	mux.ServeHTTP(rec, &http.Request{Method: method, URL: &url.URL{Path: path}, Header: http.Header{}})
	return rec.Body.String()
}

func govcMux(routes [][2]string) *Mux {
	mux := NewMux()
	h := func(tag string) HandlerFunc {
		return func(s *Store) {
			out := tag + " status=" + fmt.Sprint(s.W.Status)
			for _, n := range govcNames {
				out += fmt.Sprintf(" %s=%q", n, s.RouteParam(n))
			}
			s.W.Write([]byte(out))
		}
	}
	for _, r := range routes {
		mux.Handle(r[0], r[1], h(r[1]+" "+r[0]))
	}
	mux.HandleNoRoute(h("noroute"))
	return mux
}

func TestGovcReplay(t *testing.T) {
	ob := os.Getenv("GOVC_OBLIGATION")
	histories := [][]govcStep{
		{{route: [2]string{"/u/:a/:b", "GET"}}, {method: "GET", path: "/u/1/2"}, {method: "GET", path: "/zzz"}},
		{{route: [2]string{"/a/:x", "GET"}}, {method: "GET", path: "/a/1"}, {route: [2]string{"/b/:x/:y", "GET"}}, {method: "GET", path: "/b/1/2"}},
		{{route: [2]string{"/u/:a", "GET"}}, {method: "GET", path: "/u/1"}, {method: "POST", path: "/u/leak"}},
		{{route: [2]string{"/f/*", "GET"}}, {route: [2]string{"/g/:a", "GET"}}, {method: "GET", path: "/f/x/y"}, {method: "GET", path: "/g/7"}, {method: "GET", path: "/"}},
	}
	histories = append(histories,
		[]govcStep{{route: [2]string{"/bbb/:a", "GET"}}, {method: "GET", path: "/bbb/10/zzz"}, {method: "GET", path: "/bbb/20"}},
		[]govcStep{{route: [2]string{"/u/:a/p/:b", "GET"}}, {method: "GET", path: "/u/1/nope"}, {method: "GET", path: "/u/2/p/3/extra"}, {method: "GET", path: "/u/7/p/9"}},
	)
	found := 0
	// a request whose handler panics must not leave anything behind for the next request; ids stay unique and
	// constant while another request is served in between (nested ServeHTTP: two Stores live at once)
	{
		mux := govcMux([][2]string{{"/u/:a/:b", "GET"}, {"/ping", "GET"}})
		mux.Handle("/boom/:x", "GET", func(s *Store) { s.W.WriteHeader(202); panic("boom") })
		func() {
			defer func() { recover() }()
			mux.ServeHTTP(httptest.NewRecorder(), &http.Request{Method: "GET", URL: &url.URL{Path: "/boom/secret"}, Header: http.Header{}})
		}()
		for _, p := range []string{"/zzz", "/u/1/2", "/ping"} {
			got := govcObserve(mux, "GET", p)
			want := govcObserve(govcMux([][2]string{{"/u/:a/:b", "GET"}, {"/ping", "GET"}}), "GET", p)
			if got != want {
				found++
				fmt.Printf("REPRODUCED obligation=%s: after a request whose handler panicked, GET %s observes %q, a fresh Mux observes %q\n", ob, p, got, want)
			}
		}
		mux2 := NewMux()
		var innerID, before, after string
		mux2.Handle("/inner", "GET", func(s *Store) { innerID = string(append([]byte{}, s.GetID()...)) })
		mux2.Handle("/outer", "GET", func(s *Store) {
			before = string(append([]byte{}, s.GetID()...))
			mux2.ServeHTTP(httptest.NewRecorder(), &http.Request{Method: "GET", URL: &url.URL{Path: "/inner"}, Header: http.Header{}})
			after = string(append([]byte{}, s.GetID()...))
		})
		mux2.ServeHTTP(httptest.NewRecorder(), &http.Request{Method: "GET", URL: &url.URL{Path: "/outer"}, Header: http.Header{}})
		if before != after || before == innerID {
			found++
			fmt.Printf("REPRODUCED obligation=%s: request id %q became %q while another request (id %q) was served\n", ob, before, after, innerID)
		}
	}
	for hi, hist := range histories {
		var routes [][2]string
		var mux *Mux
		for si, st := range hist {
			if st.route[0] != "" {
				routes = append(routes, st.route)
				if mux == nil {
					mux = govcMux(nil)
				}
				tag := st.route[1] + " " + st.route[0]
				mux.Handle(st.route[0], st.route[1], func(s *Store) {
					out := tag + " status=" + fmt.Sprint(s.W.Status)
					for _, n := range govcNames {
						out += fmt.Sprintf(" %s=%q", n, s.RouteParam(n))
					}
					s.W.Write([]byte(out))
				})
				continue
			}
			got := govcObserve(mux, st.method, st.path)
			want := govcObserve(govcMux(routes), st.method, st.path)
			if got != want {
				found++
				fmt.Printf("REPRODUCED obligation=%s: history %d step %d %s %s: reused Mux observes %q, fresh Mux observes %q\n", ob, hi, si, st.method, st.path, got, want)
			}
		}
	}
	if found > 0 {
		t.Fatalf("%d violations of C05 on the real code", found)
	}
}
