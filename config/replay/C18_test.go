// package-dir: util/osutil
package osutil

// Replay harness for C18. The failing obligations of CopyFile/MoveFile have models in which the destination path
// resolves to the source's inode; the state builder materialises that alias class in a temp dir (same path,
// ./-spelling, symbolic link, hard link) plus the plain cases, and compares file contents with a snapshot.

import (
	"bytes"
	"fmt"
	"os"
	"path/filepath"
	"testing"
)

func TestGovcReplay(t *testing.T) {
	ob := os.Getenv("GOVC_OBLIGATION")
	content := bytes.Repeat([]byte("glb-verif-"), 1000)
	found := 0
	report := func(f string, a ...any) {
		found++
		fmt.Printf("REPRODUCED obligation=%s: %s\n", ob, fmt.Sprintf(f, a...))
	}
	type mk func(dir, src string) (dest string, err error)
	cases := map[string]mk{
		"same path":   func(dir, src string) (string, error) { return src, nil },
		"./ spelling": func(dir, src string) (string, error) { return filepath.Dir(src) + "/./" + filepath.Base(src), nil },
		"symlink": func(dir, src string) (string, error) {
			d := filepath.Join(dir, "link")
			return d, os.Symlink(src, d)
		},
		"hard link": func(dir, src string) (string, error) {
			d := filepath.Join(dir, "hard")
			return d, os.Link(src, d)
		},
		"fresh destination": func(dir, src string) (string, error) { return filepath.Join(dir, "new"), nil },
		"existing destination": func(dir, src string) (string, error) {
			d := filepath.Join(dir, "old")
			return d, os.WriteFile(d, []byte("previous"), 0644)
		},
	}
	for name, build := range cases {
		for _, op := range []string{"CopyFile", "MoveFile"} {
			dir := t.TempDir()
			src := filepath.Join(dir, "src")
			if err := os.WriteFile(src, content, 0644); err != nil {
				t.Fatal(err)
			}
			dest, err := build(dir, src)
			if err != nil {
				t.Fatal(err)
			}
			if op == "CopyFile" {
				_, err = CopyFile(src, dest)
			} else {
				err = MoveFile(src, dest)
			}
			got, rerr := os.ReadFile(src)
			gotDest, derr := os.ReadFile(dest)
			switch {
			case err != nil || op == "CopyFile":
				// CopyFile in every case, and a failed MoveFile: the source must be intact
				if rerr != nil || !bytes.Equal(got, content) {
					report("%s(src, %s) returned err=%v and the source now has %d bytes (had %d), read err %v", op, name, err, len(got), len(content), rerr)
				}
			}
			if err == nil && (derr != nil || !bytes.Equal(gotDest, content)) {
				report("%s(src, %s) returned nil but the destination has %d bytes (want %d), read err %v", op, name, len(gotDest), len(content), derr)
			}
		}
	}
	// an existing, longer destination must not keep a stale tail; an empty source gives an empty destination
	for _, srcLen := range []int{0, 3, 5000} {
		dir := t.TempDir()
		src, dest := filepath.Join(dir, "s"), filepath.Join(dir, "d")
		want := bytes.Repeat([]byte("x"), srcLen)
		os.WriteFile(src, want, 0644)
		os.WriteFile(dest, bytes.Repeat([]byte("old-"), 4000), 0644)
		if _, err := CopyFile(src, dest); err == nil {
			if got, _ := os.ReadFile(dest); !bytes.Equal(got, want) {
				report("CopyFile of a %d-byte source over a 16000-byte destination returned nil and left %d bytes in the destination", srcLen, len(got))
			}
		}
	}
	// a MoveFile that fails (rename and copy both impossible) must leave the source in place
	for name, mkDest := range map[string]func(dir string) string{
		"missing parent":    func(dir string) string { return filepath.Join(dir, "no", "such", "d") },
		"parent is a file":  func(dir string) string { os.WriteFile(filepath.Join(dir, "f"), nil, 0644); return filepath.Join(dir, "f", "d") },
		"dest is directory": func(dir string) string { os.Mkdir(filepath.Join(dir, "dd"), 0755); os.WriteFile(filepath.Join(dir, "dd", "x"), nil, 0644); return filepath.Join(dir, "dd") },
	} {
		dir := t.TempDir()
		src := filepath.Join(dir, "s")
		os.WriteFile(src, content, 0644)
		if err := MoveFile(src, mkDest(dir)); err != nil {
			if got, rerr := os.ReadFile(src); rerr != nil || !bytes.Equal(got, content) {
				report("MoveFile failed (%s: %v) but the source is gone or changed (read err %v, %d bytes)", name, err, rerr, len(got))
			}
		}
	}
	if found > 0 {
		t.Fatalf("%d violations of C18 on the real code", found)
	}
}
