/-
C16, lemma sh.hom (DESIGN 3/C16), machine-checked in Lean 4 (no Mathlib).

The contracts of `strutil.ShellEscape` / `ShellEscapeExceptTilde` (verified by govc on the real code) say
    result = "'" ++ replaceAll(s, "'", r) ++ "'"       with  goodRepl(r),
where goodRepl(r) is decided by SMT on the code's own replacement constant by unfolding the byte transducer
shNext / shEmit of /repo/util/strutil/zz_contracts_verif.go (states: 0 BAD, 1 SQ, 2 UQ, 3 UQE, 4 DQ, 5 DQE).
What SMT leaves open is the induction over the input: for every input without a NUL byte the POSIX shell reads that
text as exactly one word whose value is the input. This file proves it.

`shBreak`, `shExpand`, `shNext`, `shEmit` are NOT defined here: govc generates their definitions from the contract
file on every run and puts them in front of this text, so the theorem is about the contract's own functions.
-/

/-- Reading `w` from state `q`: `none` if the word breaks or an expansion starts (state 0), otherwise the final
    state and the bytes contributed to the word (shEmit = -1 means the byte contributes nothing). -/
def run : Int → List Int → Option (Int × List Int)
  | q, [] => some (q, [])
  | q, c :: w =>
    if shNext q c == 0 then none
    else match run (shNext q c) w with
      | none => none
      | some (q', out) =>
        if shEmit q c == -1 then some (q', out) else some (q', shEmit q c :: out)

/-- goodRepl(r) of the contract (shRun(r, 0, 1, 0)): read inside single quotes, `r` ends inside single quotes again
    having contributed exactly one byte, a single quote, with no word break and no expansion on the way. -/
def good (r : List Int) : Prop := run 1 r = some (1, [39])

/-- replaceAll(s, "'", r) for the one-byte pattern "'" -/
def repl (r : List Int) : List Int → List Int
  | [] => []
  | c :: s => (if c == 39 then r else [c]) ++ repl r s

theorem run_append (q : Int) (a b : List Int) :
    run q (a ++ b) =
      match run q a with
      | none => none
      | some (q', out) =>
        match run q' b with
        | none => none
        | some (q'', out') => some (q'', out ++ out') := by
  induction a generalizing q with
  | nil =>
    simp [run]
    cases run q b with
    | none => rfl
    | some p => cases p; rfl
  | cons c a ih =>
    simp only [List.cons_append, run]
    by_cases h : (shNext q c == 0) = true
    · simp [h]
    · simp only [h]
      rw [ih]
      cases hra : run (shNext q c) a with
      | none => simp
      | some p =>
        obtain ⟨q', out⟩ := p
        cases hrb : run q' b with
        | none => by_cases he : (shEmit q c == -1) = true <;> simp [hrb, he]
        | some p2 =>
          obtain ⟨q'', out'⟩ := p2
          by_cases he : (shEmit q c == -1) = true <;> simp [hrb, he]

/-- Inside single quotes, the escaped body reads back as the input. -/
theorem run_repl (r : List Int) (hr : good r) (s : List Int)
    (h0 : ∀ c ∈ s, c ≠ 0) (hb : ∀ c ∈ s, c ≠ -1) :
    run 1 (repl r s) = some (1, s) := by
  induction s with
  | nil => simp [repl, run]
  | cons c s ih =>
    have h0s : ∀ d ∈ s, d ≠ 0 := fun d hd => h0 d (List.mem_cons_of_mem c hd)
    have hbs : ∀ d ∈ s, d ≠ -1 := fun d hd => hb d (List.mem_cons_of_mem c hd)
    have hc0 : c ≠ 0 := h0 c (List.mem_cons_self ..)
    have hcb : c ≠ -1 := hb c (List.mem_cons_self ..)
    have ihs := ih h0s hbs
    simp only [repl]
    rw [run_append]
    by_cases hq : (c == 39) = true
    · have : c = 39 := by simpa using hq
      subst this
      simp only [good] at hr
      simp [hr, ihs]
    · have hne : c ≠ 39 := by simpa using hq
      have hn : shNext 1 c = 1 := by simp [shNext, hc0, hne]
      have he : shEmit 1 c = c := by simp [shEmit, hne]
      have h1 : run 1 [c] = some (1, [c]) := by simp [run, hn, he, hcb]
      simp [hq, h1, ihs]

/-- sh.hom: the text "'" ++ replaceAll(s, "'", r) ++ "'" , read by the shell at the start of a word (unquoted state
    2), is one uninterrupted word whose value is `s`, and the shell is back in the unquoted state at its end.
    Bytes are 1..255 (no NUL; -1 is not a byte). -/
theorem sh_hom (r : List Int) (hr : good r) (s : List Int)
    (h0 : ∀ c ∈ s, c ≠ 0) (hb : ∀ c ∈ s, c ≠ -1) :
    run 2 ([39] ++ (repl r s ++ [39])) = some (2, s) := by
  have hopen : run 2 [39] = some (1, []) := by simp [run, shNext, shEmit]
  have hclose : run 1 [39] = some (2, []) := by simp [run, shNext, shEmit]
  rw [run_append, hopen]
  simp only
  rw [run_append, run_repl r hr s h0 hb]
  simp [hclose]

/-- The replacement text the code uses, '"'"' , is good (the SMT obligation `post.shape` decides the same on the
    constant found in the code). -/
theorem good_code_constant : good [39, 34, 39, 34, 39] := by
  simp [good, run, shNext, shEmit]
