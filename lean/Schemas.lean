/-
Induction schemas of the govc engine, machine-checked once and for all (Lean 4, no Mathlib).

The engine treats the automaton state of a byte buffer as a left fold of a step function over the bytes (fold ghosts,
DESIGN 2.5/0A.2). SMT proves one-step obligations; the extension to runs of arbitrary length is done by the schemas
below, which the engine instantiates as axioms over its uninterpreted `run` functions:

  * fold_append   the state after appending `w` is the run of `w` from the state before      (append rule)
  * run_stable    runlemma: a run of P-bytes leaves a state in Q unchanged
  * run_move      runmove: from a state in A, a non-empty run of P-bytes ends in a state in B
  * iter_trans    iterator rule: a reflexive, transitive relation proved for one call of a callback holds between
                  the states before and after any number of calls
The state type σ stands for the pair (k, d); `step` for (stepK, stepD).
-/

theorem fold_append {σ β : Type} (step : σ → β → σ) (s : σ) (v w : List β) :
    (v ++ w).foldl step s = w.foldl step (v.foldl step s) := by
  simp [List.foldl_append]

theorem run_stable {σ β : Type} (step : σ → β → σ) (Q : σ → Prop) (P : β → Prop)
    (one : ∀ s c, Q s → P c → step s c = s) :
    ∀ (w : List β) (s : σ), Q s → (∀ c ∈ w, P c) → w.foldl step s = s := by
  intro w
  induction w with
  | nil => intro s _ _; rfl
  | cons c w ih =>
    intro s hq hp
    have hc : P c := hp c (List.mem_cons_self ..)
    have hw : ∀ d ∈ w, P d := fun d hd => hp d (List.mem_cons_of_mem c hd)
    simp only [List.foldl_cons]
    rw [one s c hq hc]
    exact ih s hq hw

theorem run_move {σ β : Type} (step : σ → β → σ) (A B : σ → Prop) (P : β → Prop)
    (one : ∀ s c, (A s ∨ B s) → P c → B (step s c)) :
    ∀ (w : List β) (s : σ), A s → w ≠ [] → (∀ c ∈ w, P c) → B (w.foldl step s) := by
  have stay : ∀ (w : List β) (s : σ), B s → (∀ c ∈ w, P c) → B (w.foldl step s) := by
    intro w
    induction w with
    | nil => intro s hb _; exact hb
    | cons c w ih =>
      intro s hb hp
      have hc : P c := hp c (List.mem_cons_self ..)
      have hw : ∀ d ∈ w, P d := fun d hd => hp d (List.mem_cons_of_mem c hd)
      simp only [List.foldl_cons]
      exact ih (step s c) (one s c (Or.inr hb) hc) hw
  intro w s ha hne hp
  cases w with
  | nil => exact absurd rfl hne
  | cons c w =>
    have hc : P c := hp c (List.mem_cons_self ..)
    have hw : ∀ d ∈ w, P d := fun d hd => hp d (List.mem_cons_of_mem c hd)
    simp only [List.foldl_cons]
    exact stay w (step s c) (one s c (Or.inl ha) hc) hw

/-- `calls f n s`: the program state after `n` calls of the callback `f` starting in `s`. -/
def calls {σ : Type} (f : σ → σ) : Nat → σ → σ
  | 0, s => s
  | n + 1, s => calls f n (f s)

theorem iter_trans {σ : Type} (f : σ → σ) (R : σ → σ → Prop)
    (refl : ∀ s, R s s) (trans : ∀ a b c, R a b → R b c → R a c) (one : ∀ s, R s (f s)) :
    ∀ (n : Nat) (s : σ), R s (calls f n s) := by
  intro n
  induction n with
  | zero => intro s; exact refl s
  | succ n ih => intro s; exact trans s (f s) _ (one s) (ih (f s))

/-- function-level invariants of a callback survive any number of calls -/
theorem iter_inv {σ : Type} (f : σ → σ) (I : σ → Prop) (one : ∀ s, I s → I (f s)) :
    ∀ (n : Nat) (s : σ), I s → I (calls f n s) := by
  intro n
  induction n with
  | zero => intro s h; exact h
  | succ n ih => intro s h; exact ih (f s) (one s h)
